#!/bin/bash
# usage: seedtest.sh <src_out_dir> <prop> <id>   -- confirm a seeded change in a scratch worktree and store it under /verif/seeded/<id>
export GOFLAGS=-mod=mod GOPROXY=off GOSUMDB=off GOTOOLCHAIN=local
src=$1; prop=$2; id=$3
W=/tmp/confirm_$$
git -C /repo worktree add -q --detach $W HEAD || exit 2
trap 'git -C /repo worktree remove --force '$W' >/dev/null 2>&1' EXIT
cd $W
git apply $src/patch.diff || { echo "APPLY-FAIL"; exit 1; }
go build ./... || { echo "BUILD-FAIL"; exit 1; }
if ! go test -vet=off -count=1 . >/tmp/confirm_suite.txt 2>&1; then echo "SUITE-FAILS-WITH-CHANGE"; tail -5 /tmp/confirm_suite.txt; exit 1; fi
cp $src/demo_test.go seed_demo_test.go
if go test -vet=off -count=1 -run 'TestSeed' . >/tmp/confirm_demo1.txt 2>&1; then echo "DEMO-PASSES-WITH-CHANGE"; exit 1; fi
git checkout -q -- . 
if ! go test -vet=off -count=1 -run 'TestSeed' . >/tmp/confirm_demo2.txt 2>&1; then echo "DEMO-FAILS-WITHOUT-CHANGE"; tail -5 /tmp/confirm_demo2.txt; exit 1; fi
mkdir -p /verif/seeded/$id
cp $src/patch.diff $src/demo_test.go /verif/seeded/$id/
python3 - $src/meta.json /verif/seeded/$id/meta.json $prop <<'PY'
import json,sys
m=json.load(open(sys.argv[1]))
m['property']=sys.argv[3]
m['confirmed']="scratch worktree of /repo HEAD: patch applies, go build ok, full suite passes with the change, demo test fails with it and passes without it (seedtest.sh)"
json.dump(m,open(sys.argv[2],'w'),indent=1)
PY
echo "CONFIRMED $id"
