#!/usr/bin/env python3
# Regenerates MANIFEST.json from the table below (run after changing claims).
import json, subprocess
props=[json.loads(l) for l in open('/verif/properties.jsonl')]
titles={p['id']:p['title'] for p in props}
CLAIMS = json.load(open('/verif/claims.json'))
hooks=subprocess.run(['git','-C','/repo','log','--format=%H','--grep=^verif hook'],capture_output=True,text=True).stdout.split()
checks=[]
for pid,c in CLAIMS['claimed'].items():
    checks.append({
      "property_id":pid,
      "quick_cmd":f"bin/gvc check --prop {pid} --tier quick",
      "thorough_cmd":f"bin/gvc check --prop {pid} --tier thorough",
      "evidence_file":f"/verif/evidence/{pid}.json",
      "replay_cmd_template":"bin/gvc replay {path}",
      "engine":"gvc",
      "level_claimed":{"category":"proof","text":c['text'],"design_ref":c.get('design','DESIGN.md section 4')},
      "level_note":c['note'],
      "technique":c.get('technique',"contract-based deductive verification: VCs generated from go/ssa of /repo against //@ contracts, discharged by z3/cvc5"),
    })
m={"version":1,
 "setup_cmd":"cd /verif/engine && GOFLAGS=-mod=vendor GOPROXY=off GOSUMDB=off GOTOOLCHAIN=local go build -o /verif/bin/gvc ./cmd/gvc",
 "hooks":{"guard":"verif","enable":"packages are loaded with -tags verif; the only hook is the comment-only contract file /repo/contracts_verif.go","baseline_off_cmd":"cd /repo && GOFLAGS=-mod=mod GOPROXY=off GOSUMDB=off go test -vet=off -count=1 ./...","source_commits":hooks,"add_only":True},
 "engines":[{"name":"gvc","path":"/verif/engine","serves_properties":sorted(CLAIMS['claimed'].keys()),"kind_free_text":"verification-condition generator over go/ssa (DAG symbolic execution, loops cut at invariants, callees by contract) + z3 4.8.12 / z3 5.1.0 / cvc5 1.0.3 raced per obligation; counterexample replay through go test -overlay"}],
 "checks":checks,
 "notes":CLAIMS.get('notes',''),
 "not_applicable":[{"property_id":k,"reason":v} for k,v in CLAIMS['not_applicable'].items()]}
json.dump(m,open('/verif/MANIFEST.json','w'),indent=1)
print(len(checks),"checks")
