#!/bin/bash
# usage: seeddetect.sh <id> <prop>...
# Applies a stored seeded change to a scratch worktree of /repo's HEAD, runs the
# checks of the given properties against it (evidence and replays go to a scratch
# directory), prints the outcome and removes the worktree. /repo is not touched.
export GOFLAGS=-mod=mod GOPROXY=off GOSUMDB=off GOTOOLCHAIN=local
id=$1; shift
W=$(mktemp -d /tmp/seedrun_XXXXXX); rmdir $W
git -C /repo worktree add -q --detach $W HEAD || exit 2
trap 'git -C /repo worktree remove --force '$W' >/dev/null 2>&1; rm -rf '$W'.out' EXIT
git -C $W apply /verif/seeded/$id/patch.diff 2>/dev/null || git -C $W apply --3way /verif/seeded/$id/patch.diff 2>/dev/null || { echo "== $id APPLY-FAIL exit=2"; exit 2; }
cd /verif
for p in "$@"; do
  out=$(GVC_OUT=$W.out bin/gvc check --prop $p --repo $W 2>&1); rc=$?
  echo "== $id $p exit=$rc"; echo "$out" | egrep 'VIOLATION|obligation|broken|bounded audit:' | head -8
done
