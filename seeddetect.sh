#!/bin/bash
# usage: seeddetect.sh <id> <prop>...  -- apply a stored seeded change to /repo, run the checks, undo
export GOFLAGS=-mod=mod GOPROXY=off GOSUMDB=off GOTOOLCHAIN=local
id=$1; shift
cd /verif
git -C /repo apply /verif/seeded/$id/patch.diff || { echo APPLY-FAIL; exit 2; }
for p in "$@"; do
  out=$(bin/gvc check --prop $p 2>&1); rc=$?
  echo "== $id $p exit=$rc"; echo "$out" | egrep 'VIOLATION|obligation|broken' | head -8
done
git -C /repo checkout -- .
git -C /verif checkout -- evidence 2>/dev/null
