package main

// Lemmas about recursive specification functions. A lemma file
// (spec/lemmas/*.smt2) carries the statement, which joins the prelude as an
// axiom, and an inductive proof script that is discharged by the solvers as
// an obligation of kind "lemma" (the axiom is not visible to its own proof;
// earlier lemmas are). The defining equations of the functions named under
// ;;@defs are given to the proof as quantified axioms.
//
//	;;@lemma <name>
//	;;@tags C02
//	;;@defs joinRow
//	;;@statement
//	(assert (forall ...))
//	;;@proof
//	(declare-const ...) (assert <induction hypothesis>) (assert (not <step>))

import (
	"fmt"
	"os"
	"path/filepath"
	"sort"
	"strings"
)

type Lemma struct {
	Name      string
	Tags      []string
	Defs      []string
	Statement string
	Proof     string
	File      string
	Axiom     bool // ;;@axiom: the statement joins the prelude of every VC (otherwise it is only proved)
}

func loadLemmas(dir string) ([]*Lemma, error) {
	files, _ := filepath.Glob(filepath.Join(dir, "*.smt2"))
	sort.Strings(files)
	var out []*Lemma
	for _, f := range files {
		data, err := os.ReadFile(f)
		if err != nil {
			return nil, err
		}
		l := &Lemma{File: filepath.Base(f)}
		sect := ""
		for _, ln := range strings.Split(string(data), "\n") {
			t := strings.TrimSpace(ln)
			switch {
			case strings.HasPrefix(t, ";;@lemma "):
				l.Name = strings.TrimSpace(strings.TrimPrefix(t, ";;@lemma "))
			case strings.HasPrefix(t, ";;@tags "):
				l.Tags = strings.Split(strings.ReplaceAll(strings.TrimSpace(strings.TrimPrefix(t, ";;@tags ")), " ", ""), ",")
			case strings.HasPrefix(t, ";;@defs "):
				l.Defs = strings.Fields(strings.TrimPrefix(t, ";;@defs "))
			case t == ";;@axiom":
				l.Axiom = true
			case t == ";;@statement":
				sect = "s"
			case t == ";;@proof":
				sect = "p"
			default:
				switch sect {
				case "s":
					l.Statement += ln + "\n"
				case "p":
					l.Proof += ln + "\n"
				}
			}
		}
		if l.Name == "" || strings.TrimSpace(l.Statement) == "" || strings.TrimSpace(l.Proof) == "" {
			return nil, fmt.Errorf("%s: lemma file needs ;;@lemma, ;;@statement and ;;@proof", f)
		}
		out = append(out, l)
	}
	return out, nil
}

// defAxiom: the defining equation of a recursive spec function as a quantified axiom.
func (e *Engine) defAxiom(name string) (string, error) {
	d := e.RecDefs[name]
	if d == nil {
		return "", fmt.Errorf("lemma: %s is not a recursive spec function", name)
	}
	var ps, as []string
	for _, p := range d.Params {
		ps = append(ps, fmt.Sprintf("(%s %s)", p[0], p[1]))
		as = append(as, p[0])
	}
	return fmt.Sprintf("(assert (forall (%s) (! (= (%s %s) %s) :pattern ((%s %s)))))",
		strings.Join(ps, " "), name, strings.Join(as, " "), d.Body.String(), name, strings.Join(as, " ")), nil
}

// lemmaResult builds the proof obligation of lemma i.
func (e *Engine) lemmaResult(i int) *FuncResult {
	l := e.Lemmas[i]
	key := "lemma:" + l.Name
	res := &FuncResult{Key: key}
	pre := e.PreludeBase
	for _, p := range e.Lemmas[:i] {
		if p.Axiom {
			pre += p.Statement
		}
	}
	c := NewCtx(pre)
	for _, d := range l.Defs {
		ax, err := e.defAxiom(d)
		if err != nil {
			res.Err = err.Error()
			return res
		}
		c.Extra = append(c.Extra, ax)
	}
	c.Extra = append(c.Extra, l.Proof)
	g := &Goal{Name: key + "#lemma#" + l.File, Func: key, Kind: "lemma", Tags: l.Tags,
		Text: "inductive proof of lemma " + l.Name + " (" + l.File + ")", Guard: "true", Body: "false"}
	c.Goals = append(c.Goals, g)
	res.Ctx = c
	res.Goals = []*Goal{g}
	return res
}
