package main

import (
	"flag"
	"fmt"
	"os"
	"runtime"
	"strings"
	"time"
)

func usage() {
	fmt.Fprintln(os.Stderr, "usage: gvc verify --func KEY | check --prop Cxx [--tier quick|thorough] | replay FILE | list")
	os.Exit(2)
}

func main() {
	if len(os.Args) < 2 {
		usage()
	}
	cmd := os.Args[1]
	fs := flag.NewFlagSet(cmd, flag.ExitOnError)
	repo := fs.String("repo", "/repo", "repository directory")
	verif := fs.String("verif", "/verif", "verif directory")
	fn := fs.String("func", "", "function key")
	prop := fs.String("prop", "", "property id")
	tier := fs.String("tier", "quick", "quick|thorough")
	keep := fs.Bool("keep", false, "keep SMT files")
	verbose := fs.Bool("v", false, "verbose")
	conform := fs.Bool("conform", false, "verify: conformance replay of the proved postconditions on one real execution")
	witness := fs.Bool("witness", false, "verify: search and replay a counterexample for every open obligation (written under replays/_verify)")
	timeout := fs.Int("timeout", 0, "per-query timeout seconds")
	schema := fs.String("schema", "", "use the schema contract of this property")
	fs.Parse(os.Args[2:])
	if t := os.Getenv("VERIF_TIER"); t != "" && cmd == "check" {
		*tier = t
	}
	e, err := loadEngine(*repo, *verif)
	if err != nil {
		fmt.Fprintln(os.Stderr, "gvc: broken:", err)
		os.Exit(2)
	}
	if err := e.checkFuncVarsImmutable(); err != nil {
		fmt.Fprintln(os.Stderr, "gvc: broken:", err)
		os.Exit(2)
	}
	work, _ := os.MkdirTemp("", "gvc-")
	keepFiles = *keep
	if !*keep {
		defer os.RemoveAll(work)
	}
	o := runOpts{Tier: *tier, Timeout: 10 * time.Second, Par: (runtime.NumCPU() + 2) / 3, Workdir: work, Verbose: *verbose}
	if *tier == "thorough" {
		relaxBudget = 12
		o.Timeout = 60 * time.Second
		o.All = true
		o.Par = runtime.NumCPU() / 3
	}
	if *timeout > 0 {
		o.Timeout = time.Duration(*timeout) * time.Second
	}
	if o.Par < 1 {
		o.Par = 1
	}
	switch cmd {
	case "verify":
		con := e.Contracts[*fn]
		if *schema != "" {
			all := e.contractsFor(*schema)
			if *fn == "" {
				bad := 0
				for _, k := range sortedKeys(all) {
					res := e.verifyOne(k, all[k], o)
					n := 0
					for _, g := range res.Goals {
						if g.Status != "proved" {
							n++
						}
					}
					if n > 0 || res.Err != "" {
						bad++
						printResult(res, false)
					}
				}
				fmt.Printf("schema %s: %d functions, %d with open obligations\n", *schema, len(all), bad)
				return
			}
			con = all[*fn]
		}
		res := e.verifyOne(*fn, con, o)
		printResult(res, *verbose)
		if *conform && res.Err == "" {
			cr := e.conformFunction(res, o)
			fmt.Printf("  conformance: ran=%v checked=%d mismatches=%d %s\n", cr.Ran, cr.Checked, len(cr.Mismatch), cr.Note)
			for _, m := range cr.Mismatch {
				fmt.Println("   ", m)
			}
		}
		if *witness && res.Err == "" {
			for _, g := range res.Goals {
				if g.Status == "proved" || g.ExpectSat {
					continue
				}
				rp := e.writeReplay("_verify", res, g, o)
				fmt.Printf("  witness %s: confirmed=%v %s\n", g.Name, rp.Confirmed, rp.Path)
			}
		}
		if *keep {
			fmt.Println("workdir:", work)
		}
	case "list":
		for _, f := range e.exportedAPI() {
			fmt.Println(fnKey(f))
		}
	case "check":
		os.Exit(e.checkProperty(*prop, o))
	case "replay":
		os.Exit(e.replayFile(fs.Arg(0)))
	case "selftest":
		os.Exit(e.selftest(o))
	default:
		usage()
	}
}

func printResult(res *FuncResult, verbose bool) {
	if res.Err != "" {
		fmt.Println("BROKEN:", res.Key, res.Err)
		return
	}
	n := map[string]int{}
	for _, g := range res.Goals {
		n[g.Status]++
		if g.Status != "proved" || verbose {
			fmt.Printf("  %-8s %-60s %5.2fs %s [%s] %s\n", g.Status, g.Name, g.Secs, g.Solver, strings.Join(g.Tags, ","), g.Pos)
		}
	}
	fmt.Printf("%s: %d goals %v in %.1fs; inlined=%d contracts-used=%v havoc-sites=%d\n", res.Key, len(res.Goals), n, res.Secs, len(res.Inlined), res.UsedCon, len(res.Havocs))
	if verbose {
		for _, h := range res.Havocs {
			fmt.Println("  havoc:", h)
		}
	}
}
