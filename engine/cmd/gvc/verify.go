package main

import (
	"fmt"
	"go/types"
	"os"
	"sort"
	"strings"
	"time"

	"golang.org/x/tools/go/ssa"
)

type FuncResult struct {
	Key      string
	Contract *Contract
	Goals    []*Goal
	Havocs   []string
	Inlined  []string
	UsedCon  []string
	EngineAssumed []string // modelling assumptions made by the engine while executing this function
	Ctx      *Ctx
	Err      string // broken: contract error etc.
	Secs     float64
	ParamTerms map[string]string
	AutoProved int
	Fn      *ssa.Function
	Args    []Value
	Results []Value
	Entry   State
	Exit    State
	X       *Exec
}

// buildVC generates all obligations for one function under its contract.
func (e *Engine) buildVC(key string, con *Contract) (res *FuncResult) {
	return e.buildVCx(key, con, nil)
}

func (e *Engine) buildVCx(key string, con *Contract, excl map[string]bool) (res *FuncResult) {
	force := map[*ssa.Alloc]bool{}
	for iter := 0; iter < 8; iter++ {
		res = e.buildVCy(key, con, excl, force)
		if res.X == nil || res.Err != "" {
			return res
		}
		grew := false
		for a := range res.X.escaped {
			if !force[a] {
				force[a] = true
				grew = true
			}
		}
		if !grew {
			return res
		}
	}
	return res
}

func (e *Engine) buildVCy(key string, con *Contract, excl map[string]bool, forceHeap map[*ssa.Alloc]bool) (res *FuncResult) {
	res = &FuncResult{Key: key, Contract: con}
	defer func() {
		if r := recover(); r != nil {
			res.Err = fmt.Sprint(r)
			if os.Getenv("GVC_DEBUG") != "" {
				panic(r)
			}
		}
	}()
	fn := e.FnByKey[key]
	if fn == nil && con != nil && con.FnKey != "" {
		fn = e.FnByKey[con.FnKey]
	}
	if fn == nil {
		res.Err = "no such function " + key
		return
	}
	if fn.Blocks == nil {
		res.Err = "function has no body: " + key
		return
	}
	c := NewCtx(e.Prelude)
	extraDecls, extraSeen = nil, map[string]bool{}
	defer func() { c.Extra = append([]string{}, extraDecls...) }()
	x := &Exec{E: e, C: c, Entry: State{}, Top: fn, TopCon: con, Assumed: map[string]bool{}, Inlined: map[string]bool{},
		UsedCon: map[string]bool{}, autoExcl: excl, Active: e.Active, nonnil: map[string]bool{}, knownLen: map[string]int{}, Locals: map[string]string{}, escaped: map[*ssa.Alloc]bool{}, forceHeap: forceHeap, refEpoch: map[string]string{}, unfolded: map[string]bool{}, goalSeq: map[string]int{}}
	res.Ctx = c
	if con != nil {
		names := map[string]bool{}
		for n := range e.Epoch {
			names[n] = true
		}
		for n := range e.Estable {
			names[n] = true
		}
		names["rdom"], names["udom"], names["labelledStack"] = true, true, true
		for name := range names {
			mention := func(s string) bool { return strings.Contains(s, name+"(") }
			for _, cl := range con.Requires {
				x.heapInv = x.heapInv || mention(cl.Expr)
			}
			for _, cl := range con.Ensures {
				x.heapInv = x.heapInv || mention(cl.Expr)
			}
			for _, l := range con.Lets {
				x.heapInv = x.heapInv || mention(l.Expr)
			}
		}
	}
	x.safetyTags = []string{"C08"}
	if con != nil && len(con.SafetyTags) > 0 {
		x.safetyTags = con.SafetyTags
	}
	if con != nil && con.Mode == "lock" {
		x.LockHavoc = true
		x.lockHavocHook = x.lockInvariantHavoc
	}
	st := State{}
	a0 := x.comp(st, "alloc")
	c.Assume(BoolLit(true), T(SBool, app(">=", a0.S, "1")))
	c.Assume(BoolLit(true), T(SBool, app(">=", x.comp(st, "G_calls_len").S, "0")))
	if con == nil || con.Mode != "held" {
		// sequential entry: the calling goroutine holds no stack lock
		h0 := x.comp(st, "G_held")
		c.Assume(BoolLit(true), T(SBool, app("=", h0.S, "((as const (Array Int Bool)) false)")))
	}
	// parameters
	var args []Value
	res.ParamTerms = map[string]string{}
	for _, p := range fn.Params {
		v := x.freshValue(p.Type(), "p_"+p.Name())
		x.assumeValueInv(st, BoolLit(true), v)
		args = append(args, v)
		if sv, ok := x.specVarOf(v, "param"); ok {
			res.ParamTerms[p.Name()] = sv.T.S
		}
	}
	if x.LockHavoc && len(args) > 0 {
		if sv, ok := x.specVarOf(args[0], "lock"); ok {
			x.lockRecv = sv.T
			cs, mv := x.comp(st, "Cell_stack"), x.comp(st, "Mem_Val")
			x.lockCfg = c.Def("lock_cfg", T(SInt, app("cfgOf", cs.S, mv.S, sv.T.S)))
			x.lockMtx = c.Def("lock_mtx", T(SInt, app("select", x.comp(st, "F_nodeConfig_mtx").S, x.lockCfg.S)))
		}
	}
	fr := x.newFrame(fn, con)
	fr.isTop = true
	x.stack = []*ssa.Function{fn}
	entry := st.clone()
	var tags []string
	if con != nil {
		tags = con.Tags
		vars := x.contractVars(fn, args, nil, "entry")
		env := x.specEnv(st, st, vars)
		x.bindLets(con, env, key)
		for _, cl := range con.Requires {
			t, err := env.compileBool(cl.ast)
			if err != nil {
				panic(fmt.Sprintf("contract error: %s requires %s: %v", key, cl.Label, err))
			}
			x.autoUnfold(t.S, 2)
			c.Assume(BoolLit(true), t)
		}
		// cover: the precondition is satisfiable
		g := &Goal{Name: x.goalName(key, "cover", "requires"), Func: key, Kind: "cover", Tags: tags, Text: "precondition and type invariants are satisfiable", ExpectSat: true}
		c.AddGoal(g, BoolLit(true), BoolLit(true))
		entry = st.clone()
	}
	ec, est, results := x.execBody(fr, BoolLit(true), st, args)
	res.Fn, res.Args, res.Results, res.Entry, res.Exit, res.X = fn, args, results, entry, est, x
	if con != nil {
		// canary: some return is reachable (ensures false must not be provable)
		cg := &Goal{Name: x.goalName(key, "canary", "return-reachable"), Func: key, Kind: "canary", Tags: tags, Text: "a return is reachable under the contract (ensures false is not provable)", ExpectSat: true}
		c.AddGoal(cg, ec, BoolLit(true))
		vars := x.contractVars(fn, args, results, "exit")
		x.curPC = ec
		env := x.specEnv(est, entry, vars)
		x.bindLets(con, env, key)
		if len(con.Hints) > 0 {
			// proof hints speak about locals at exit; each is guarded by the path condition of the block that defines them
			hv, hguard := fr.exitVars(est)
			for k, v := range vars {
				if _, shadow := hv[k]; !shadow {
					hv[k] = v
				}
			}
			henv := x.specEnv(est, entry, hv)
			x.bindLets(con, henv, key)
			for _, cl := range con.Hints {
				t, err := henv.compileBool(cl.ast)
				if err != nil {
					panic(fmt.Sprintf("contract error: %s hint %s: %v", key, cl.Label, err))
				}
				g := ec
				for name, bc := range hguard {
					if strings.Contains(cl.Expr, name) {
						g = And(g, bc)
					}
				}
				tg := cl.Tags
				if len(tg) == 0 {
					tg = tags
				}
				x.oblige(key, "hint", cl.Label, cl.Expr, tg, fmt.Sprintf("contracts_verif.go:%d", cl.Line), g, t)
			}
		}
		for _, cl := range con.Ensures {
			t, err := env.compileBool(cl.ast)
			if err != nil {
				panic(fmt.Sprintf("contract error: %s ensures %s: %v", key, cl.Label, err))
			}
			tg := cl.Tags
			if len(tg) == 0 {
				tg = tags
			}
			x.oblige(key, "post", cl.Label, cl.Expr, tg, fmt.Sprintf("contracts_verif.go:%d", cl.Line), ec, t)
		}
		x.frameObligations(key, con, env, entry, est, ec, tags)
	}
	res.Goals = c.Goals
	res.Havocs = x.Havocs
	res.Inlined = sortedKeys(x.Inlined)
	res.UsedCon = sortedKeys(x.UsedCon)
	res.EngineAssumed = sortedKeys(x.Assumed)
	if len(x.okCache) > 0 {
		res.EngineAssumed = append(res.EngineAssumed, "entry-stable spec functions (;;@estable) read only heap cells reachable from their arguments; evaluated on the entry heap once the heap-agreement side conditions (obligations of kind 'stable') are discharged")
	}
	return
}

func (x *Exec) frameObligations(key string, con *Contract, env *SpecEnv, entry, exit State, ec Term, tags []string) {
	if con.NoFrame {
		return
	}
	allowed := map[string][]*ModTarget{}
	whole := map[string]bool{}
	for _, m := range con.Modifies {
		if m.Comp == "fresh" {
			continue
		}
		comps := map[string]bool{}
		x.expandModComp(m.Comp, comps)
		for c := range comps {
			if _, ok := x.E.CompSorts[c]; !ok {
				panic(fmt.Sprintf("contract error: %s modifies unknown component %s", key, c))
			}
			if c == "G_held" && con.Mode != "lock" {
				continue // every function returns with the set of held locks it was entered with
			}
			if m.Idx == "" {
				whole[c] = true
			}
			allowed[c] = append(allowed[c], m)
		}
	}
	a0 := x.comp(entry, "alloc")
	names := make([]string, 0, len(exit))
	for n := range exit {
		names = append(names, n)
	}
	sort.Strings(names)
	pre := env.withState(env.Old)
	for _, name := range names {
		if name == "alloc" || whole[name] || strings.HasPrefix(name, "@") || strings.HasPrefix(name, "_L") {
			continue
		}
		skip := false
		for _, pre := range con.FrameSkip {
			if strings.HasPrefix(name, pre) {
				skip = true
			}
		}
		if skip {
			continue
		}
		fin := exit[name]
		ini := x.comp(entry, name)
		if fin.S == ini.S {
			continue
		}
		sortS := x.E.CompSorts[name]
		_, isArr := elemOfArr(sortS)
		var body Term
		if !isArr {
			body = Eq(fin, ini)
		} else {
			conds := []string{"(<= 0 q)", fmt.Sprintf("(< q %s)", a0.S)}
			if strings.HasPrefix(name, "G_") {
				conds = conds[:0]
			}
			for _, m := range allowed[name] {
				if m.Idx == "fresh" {
					continue
				}
				idx, err := pre.compile(m.ast)
				if err != nil {
					panic(fmt.Sprintf("contract error: %s modifies %s[%s]: %v", key, name, m.Idx, err))
				}
				conds = append(conds, fmt.Sprintf("(not (= q %s))", idx.S))
			}
			body = T(SBool, fmt.Sprintf("(forall ((q Int)) (=> %s (= (select %s q) (select %s q))))", And(termsOf(conds)...).S, fin.S, ini.S))
		}
		x.oblige(key, "frame", name, "frame: "+name+" unchanged outside the modifies clause", tags, "", ec, body)
	}
}

func termsOf(ss []string) []Term {
	var out []Term
	for _, s := range ss {
		out = append(out, T(SBool, s))
	}
	return out
}

// ---------------------------------------------------------------------

type runOpts struct {
	Tier    string
	Timeout time.Duration
	Par     int
	All     bool
	Workdir string
	Verbose bool
}

func (e *Engine) verifyOne(key string, con *Contract, o runOpts) *FuncResult {
	start := time.Now()
	var res *FuncResult
	if strings.HasPrefix(key, "lemma:") {
		res = &FuncResult{Key: key, Err: "no such lemma"}
		for i, l := range e.Lemmas {
			if "lemma:"+l.Name == key {
				res = e.lemmaResult(i)
			}
		}
	} else {
		res = e.buildVCFix(key, con, o)
	}
	if res.Err != "" {
		return res
	}
	discharge(res.Ctx, res.Goals, dischargeOpts{Timeout: o.Timeout, All: o.All, Workdir: o.Workdir, Par: o.Par})
	var open []*Goal
	for _, g := range res.Goals {
		if g.Status == "unknown" && !g.ExpectSat {
			open = append(open, g)
		}
	}
	if len(open) > 0 {
		discharge(res.Ctx, open, dischargeOpts{Timeout: o.Timeout, All: o.All, Workdir: o.Workdir, Par: 2, Split: true})
	}
	res.Secs = time.Since(start).Seconds()
	return res
}

func goalHasTag(g *Goal, tag string) bool {
	for _, t := range g.Tags {
		if t == tag {
			return true
		}
	}
	return false
}

func contractMentions(con *Contract, tag string) bool {
	for _, t := range con.Tags {
		if t == tag {
			return true
		}
	}
	for _, t := range con.SafetyTags {
		if t == tag {
			return true
		}
	}
	for _, cl := range con.Ensures {
		for _, t := range cl.Tags {
			if t == tag {
				return true
			}
		}
	}
	for _, cls := range con.LoopInv {
		for _, cl := range cls {
			for _, t := range cl.Tags {
				if t == tag {
					return true
				}
			}
		}
	}
	return false
}

// methodSetKeys enumerates exported methods of the given named types and exported package functions.
func (e *Engine) exportedAPI() []*ssa.Function {
	var out []*ssa.Function
	seen := map[*ssa.Function]bool{}
	for _, tn := range []string{"Stack", "Condition", "Auxiliary", "ComparisonOperator"} {
		o := e.TPkg.Scope().Lookup(tn)
		if o == nil {
			continue
		}
		for _, t := range []types.Type{o.Type(), types.NewPointer(o.Type())} {
			ms := e.Prog.MethodSets.MethodSet(t)
			for i := 0; i < ms.Len(); i++ {
				sel := ms.At(i)
				if !sel.Obj().Exported() {
					continue
				}
				fn := e.Prog.MethodValue(sel)
				if fn == nil || seen[fn] {
					continue
				}
				// skip promoted wrappers of the same declared method: keep declared receiver only
				if fn.Synthetic != "" {
					continue
				}
				seen[fn] = true
				out = append(out, fn)
			}
		}
	}
	for _, m := range e.Pkg.Members {
		if fn, ok := m.(*ssa.Function); ok && fn.Object() != nil && fn.Object().Exported() {
			if !seen[fn] {
				seen[fn] = true
				out = append(out, fn)
			}
		}
	}
	sort.Slice(out, func(i, j int) bool { return fnKey(out[i]) < fnKey(out[j]) })
	return out
}

// buildVCFix iterates the generated loop-frame candidates to a fixpoint (Houdini):
// a candidate whose preservation cannot be proved is dropped and the VC rebuilt,
// so that no surviving obligation was proved from a refuted candidate.
func (e *Engine) buildVCFix(key string, con *Contract, o runOpts) *FuncResult {
	excl := map[string]bool{}
	for iter := 0; iter < 6; iter++ {
		res := e.buildVCx(key, con, excl)
		if res.Err != "" {
			return res
		}
		var auto []*Goal
		for _, g := range res.Goals {
			if g.Kind == "auto-inv" {
				auto = append(auto, g)
			}
		}
		if len(auto) == 0 {
			return res
		}
		discharge(res.Ctx, auto, dischargeOpts{Timeout: o.Timeout / 2, Workdir: o.Workdir, Par: o.Par})
		dropped := 0
		for _, g := range auto {
			if g.Status != "proved" {
				excl[g.Name] = true
				dropped++
			}
		}
		if dropped == 0 {
			// keep only non-candidate goals for the main discharge; candidates are proved
			var rest []*Goal
			for _, g := range res.Goals {
				if g.Kind != "auto-inv" {
					rest = append(rest, g)
				}
			}
			res.AutoProved = len(auto)
			res.Goals = rest
			for n := range excl {
				res.Havocs = append(res.Havocs, "generated loop frame candidate dropped (state havoced): "+n)
			}
			return res
		}
	}
	return &FuncResult{Key: key, Err: "loop frame candidates did not stabilise"}
}
