package main

// Assumed contracts of library functions (trusted base, listed in evidence).

import (
	"fmt"
	"go/token"
	"go/types"
	"strings"
	"unicode"

	"golang.org/x/tools/go/ssa"
)

// package-level function variables of misc.go, bound once at init and never
// reassigned (checked mechanically by checkFuncVarsImmutable).
var funcVars = map[string]string{
	"G_typOf":   "reflect.TypeOf",
	"G_valOf":   "reflect.ValueOf",
	"G_printf":  "fmt.Printf",
	"G_sprintf": "fmt.Sprintf",
	"G_eq":      "strings.EqualFold",
	"G_lc":      "strings.ToLower",
	"G_ilc":     "unicode.IsLower",
	"G_uc":      "strings.ToUpper",
	"G_iuc":     "unicode.IsUpper",
	"G_rplc":    "strings.ReplaceAll",
	"G_qt":      "strconv.Quote",
	"G_uq":      "strconv.Unquote",
	"G_itoa":    "strconv.Itoa",
	"G_split":   "strings.Split",
	"G_trimS":   "strings.TrimSpace",
	"G_join":    "strings.Join",
	"G_scmp":    "strings.Compare",
	"G_now":     "time.Now",
}

// checkFuncVarsImmutable: no function other than init stores to these globals.
func (e *Engine) checkFuncVarsImmutable() error {
	for _, fn := range e.FnByKey {
		if fn.Name() == "init" {
			continue
		}
		for _, b := range fn.Blocks {
			for _, ins := range b.Instrs {
				if s, ok := ins.(*ssa.Store); ok {
					if g, ok := s.Addr.(*ssa.Global); ok {
						if _, isFV := funcVars["G_"+g.Name()]; isFV {
							return fmt.Errorf("%s assigns package function variable %s; the assumed binding no longer holds", fnKey(fn), g.Name())
						}
					}
				}
			}
		}
	}
	return nil
}

var usedExternals = map[string]bool{}

func literalString(t Term) (string, bool) {
	s := t.S
	if len(s) < 2 || s[0] != '"' || s[len(s)-1] != '"' {
		return "", false
	}
	body := s[1 : len(s)-1]
	if strings.Contains(body, `\u{`) || strings.Contains(body, `""`) {
		return "", false
	}
	return body, true
}

func intLiteral(t Term) (int64, bool) {
	var n int64
	if _, err := fmt.Sscanf(t.S, "%d", &n); err == nil && fmt.Sprint(n) == t.S {
		return n, true
	}
	return 0, false
}

func (x *Exec) extWrites(fn *ssa.Function, out map[string]bool) {
	switch fn.String() {
	case "(*strings.Builder).WriteString", "(*strings.Builder).WriteRune", "(*strings.Builder).WriteByte":
		out["Cell_strings_Builder"] = true
	case "errors.New", "fmt.Errorf":
		out["alloc"] = true
	case "(*sync.Mutex).Lock", "(*sync.Mutex).Unlock":
		out["G_held"] = true
	}
}

func (x *Exec) callExternal(fr *Frame, key string, sig *types.Signature, args []Value, pos token.Pos, bc Term, st State, site string) []Value {
	usedExternals[key] = true
	str := func(i int) Term { return x.term(args[i], types.Typ[types.String], site) }
	one := func(t Term, typ types.Type) []Value { return []Value{VT(t, typ)} }
	tString := types.Typ[types.String]
	uf := func(name, sig string, sort string, a ...string) Term {
		x.E.declareUF(name, sig)
		return T(sort, app(name, a...))
	}
	switch key {
	case "strings.ToUpper":
		if s, ok := literalString(str(0)); ok {
			return one(StrLit(strings.ToUpper(s)), tString)
		}
		return one(T(SStr, app("toUpper", str(0).S)), tString)
	case "strings.ToLower":
		if s, ok := literalString(str(0)); ok {
			return one(StrLit(strings.ToLower(s)), tString)
		}
		return one(T(SStr, app("toLower", str(0).S)), tString)
	case "strings.TrimSpace":
		return one(T(SStr, app("trimSpace", str(0).S)), tString)
	case "strings.EqualFold":
		return one(T(SBool, app("equalFold", str(0).S, str(1).S)), types.Typ[types.Bool])
	case "strings.Compare":
		a, b := str(0), str(1)
		return one(Ite(Eq(a, b), IntLit(0), Ite(T(SBool, app("str.<", a.S, b.S)), IntLit(-1), IntLit(1))), types.Typ[types.Int])
	case "strings.Join":
		s := x.term(args[0], sig.Params().At(0).Type(), site)
		mem := x.comp(st, "Mem_Str")
		return one(T(SStr, app("joinS", mem.S, s.S, str(1).S)), tString)
	case "unicode.IsUpper":
		r := x.term(args[0], types.Typ[types.Int32], site)
		if n, ok := intLiteral(r); ok {
			return one(BoolLit(unicode.IsUpper(rune(n))), types.Typ[types.Bool])
		}
		return one(T(SBool, app("isUpperRune", r.S)), types.Typ[types.Bool])
	case "unicode.IsLower":
		r := x.term(args[0], types.Typ[types.Int32], site)
		return one(T(SBool, app("isLowerRune", r.S)), types.Typ[types.Bool])
	case "strconv.Itoa":
		return one(T(SStr, app("itoa", x.term(args[0], types.Typ[types.Int], site).S)), tString)
	case "strconv.FormatInt":
		return one(T(SStr, app("itoa", x.term(args[0], types.Typ[types.Int64], site).S)), tString)
	case "strconv.FormatUint":
		return one(T(SStr, app("itoa", x.term(args[0], types.Typ[types.Uint64], site).S)), tString)
	case "strconv.FormatFloat", "strconv.FormatComplex", "strconv.Quote":
		r := x.C.Fresh("fmt", SStr)
		return one(r, tString)
	case "errors.New":
		id := x.freshRef(st, "err")
		return one(T(SVal, app("v_err", id.S)), sig.Results().At(0).Type())
	case "fmt.Sprintf":
		return one(x.C.Fresh("sprintf", SStr), tString)
	case "time.Now":
		return one(x.C.Fresh("now", SInt), sig.Results().At(0).Type())
	case "math/rand.Int63":
		r := x.C.Fresh("rand", SInt)
		x.C.Assume(bc, T(SBool, app("isInt64", r.S)))
		x.C.Assume(bc, T(SBool, app(">=", r.S, "0")))
		return one(r, types.Typ[types.Int64])
	case "(*strings.Builder).WriteString", "(*strings.Builder).WriteRune", "(*strings.Builder).WriteByte":
		p := args[0]
		x.nilCheck(fr, p, pos, bc, "builder")
		bt := sig.Recv().Type().(*types.Pointer).Elem()
		cur := x.load(st, p, bt, bc, site)
		ct := x.term(cur, bt, site)
		var add Term
		var n Term
		switch key {
		case "(*strings.Builder).WriteString":
			add = str(1)
			n = T(SInt, app("str.len", add.S))
		case "(*strings.Builder).WriteRune":
			r := x.term(args[1], types.Typ[types.Int32], site)
			add = T(SStr, app("runeStr", r.S))
			n = T(SInt, app("str.len", add.S))
		default:
			b := x.term(args[1], types.Typ[types.Uint8], site)
			add = T(SStr, app("str.from_code", b.S))
			n = IntLit(1)
		}
		x.store(st, p, VT(strCat(ct, add), bt), bt, site)
		if key == "(*strings.Builder).WriteByte" {
			return one(T(SVal, "nilv"), sig.Results().At(0).Type())
		}
		return []Value{VT(n, types.Typ[types.Int]), VT(T(SVal, "nilv"), sig.Results().At(1).Type())}
	case "(*strings.Builder).String":
		p := args[0]
		x.nilCheck(fr, p, pos, bc, "builder")
		bt := sig.Recv().Type().(*types.Pointer).Elem()
		return []Value{retype(x.load(st, p, bt, bc, site), tString)}
	case "(*sync.Mutex).Lock", "(*sync.Mutex).Unlock":
		m := x.term(args[0], sig.Recv().Type(), site)
		x.nilCheck(fr, args[0], pos, bc, "mutex")
		held := x.comp(st, "G_held")
		isHeld := T(SBool, app("select", held.S, m.S))
		if key == "(*sync.Mutex).Lock" {
			x.safety(fr, "lock-reentry", "sync.Mutex is not re-entrant: Lock while held deadlocks", pos, bc, Not(isHeld))
			x.setComp(st, "G_held", Store(held, m, BoolLit(true)))
			if x.LockHavoc {
				x.lockHavoc(fr, m, bc, st)
			}
		} else {
			x.safety(fr, "unlock-unheld", "Unlock of an unlocked mutex panics", pos, bc, isHeld)
			x.setComp(st, "G_held", Store(held, m, BoolLit(false)))
		}
		return nil
	case "reflect.TypeOf":
		v := x.term(args[0], sig.Params().At(0).Type(), site)
		return one(uf("rtypeOf", "(Val) Val", SVal, v.S), sig.Results().At(0).Type())
	case "reflect.ValueOf":
		v := x.term(args[0], sig.Params().At(0).Type(), site)
		return one(uf("rvalueOf", "(Val) RVal", SRVal, v.S), sig.Results().At(0).Type())
	case "(reflect.Value).Elem":
		v := x.term(args[0], sig.Recv().Type(), site)
		x.safety(fr, "reflect-elem", "reflect.Value.Elem on the zero Value panics", pos, bc, T(SBool, app("rvValid", v.S)))
		return one(T(SRVal, app("rvElem", v.S)), sig.Results().At(0).Type())
	case "(reflect.Value).Kind":
		v := x.term(args[0], sig.Recv().Type(), site)
		return one(T(SInt, app("rvKind", v.S)), sig.Results().At(0).Type())
	case "(reflect.Value).IsValid":
		v := x.term(args[0], sig.Recv().Type(), site)
		return one(T(SBool, app("rvValid", v.S)), sig.Results().At(0).Type())
	case "(reflect.Value).Convert":
		v := x.term(args[0], sig.Recv().Type(), site)
		t := x.term(args[1], sig.Params().At(0).Type(), site)
		x.safety(fr, "reflect-convert", "reflect.Value.Convert on the zero Value panics", pos, bc, T(SBool, app("rvValid", v.S)))
		return one(T(SRVal, app("rvConvert", v.S, t.S)), sig.Results().At(0).Type())
	case "(reflect.Value).Interface":
		v := x.term(args[0], sig.Recv().Type(), site)
		x.safety(fr, "reflect-interface", "reflect.Value.Interface on the zero Value panics", pos, bc, T(SBool, app("rvValid", v.S)))
		return one(T(SVal, app("rvIface", v.S)), sig.Results().At(0).Type())
	}
	// unknown external: results havoced; assumed not to write stackage state
	x.havoc(site + ": external " + key + " (results havoced, assumed not to write package state)")
	return x.freshResults(st, bc, sig)
}

// lockHavoc (C10): after acquiring, only the lock invariant is known about
// the state the lock protects. Filled in by the C10 machinery.
func (x *Exec) lockHavoc(fr *Frame, m Term, bc Term, st State) {
	if x.lockHavocHook != nil {
		x.lockHavocHook(fr, m, bc, st)
	}
}
