package main

// Engine-level values, addresses and heap access.

import (
	"fmt"
	"go/types"

	"golang.org/x/tools/go/ssa"
)

const (
	VTerm = iota
	VAddr
	VStruct // struct value or tuple: Fields
	VFunc   // statically known function / closure / external
	VPoison // unsupported; any use havocs
)

const (
	AField = iota
	AElem
	ACell
	AGlobal
)

type Addr struct {
	Kind int
	Comp string
	Ref  Term // ref / arr id
	Idx  Term // absolute element index (AElem)
	Elem string
	Typ  types.Type // pointee type
}

type Value struct {
	Kind   int
	T      Term
	A      *Addr
	Fields []Value
	Typ    types.Type
	Fn     *ssa.Function
	Ext    string  // external function key
	Binds  []Value // closure bindings
	Why    string  // poison reason
}

func VT(t Term, typ types.Type) Value { return Value{Kind: VTerm, T: t, Typ: typ} }

func poison(why string, typ types.Type) Value { return Value{Kind: VPoison, Why: why, Typ: typ} }

// Exec is one verification run of one top-level function.
type Exec struct {
	E        *Engine
	C        *Ctx
	Entry    State // entry state symbols (shared, grows lazily)
	Top      *ssa.Function
	TopCon   *Contract
	Havocs   []string // unsupported sites (each is a sound over-approximation)
	Assumed  map[string]bool
	Inlined  map[string]bool
	UsedCon  map[string]bool
	nonnil   map[string]bool
	knownLen map[string]int
	unfolded map[string]bool
	autoExcl map[string]bool
	Active   map[string]*Contract // schema contracts usable at recursive call sites
	depth    int
	stack    []*ssa.Function
	goalSeq  map[string]int
	LockHavoc bool // C10 mode: lock() havocs protected state
	lockHavocHook func(fr *Frame, m Term, bc Term, st State)
	safetyTags []string
}

func (x *Exec) havoc(site string) {
	x.Havocs = append(x.Havocs, site)
}

// comp returns the current term of a heap component, creating the entry symbol lazily.
func (x *Exec) comp(st State, name string) Term {
	if t, ok := st[name]; ok {
		return t
	}
	sort, ok := x.E.CompSorts[name]
	if !ok {
		panic("unknown heap component " + name)
	}
	t, ok := x.Entry[name]
	if !ok {
		t = x.C.Const(name+"_0", sort)
		x.Entry[name] = t
	}
	st[name] = t
	return t
}

func (x *Exec) setComp(st State, name string, t Term) {
	st[name] = x.C.Def(name, t)
}

func (x *Exec) freshRef(st State, hint string) Term {
	a := x.comp(st, "alloc")
	r := x.C.Def(hint, a)
	x.setComp(st, "alloc", T(SInt, app("+", a.S, "1")))
	x.nonnil[r.S] = true
	return r
}

func (x *Exec) structOf(t types.Type) (*types.Named, *types.Struct, bool) {
	n, ok := t.(*types.Named)
	if !ok {
		if a, ok2 := t.(*types.Alias); ok2 {
			return x.structOf(types.Unalias(a))
		}
		return nil, nil, false
	}
	if _, op := opaqueStructSort(t); op {
		return nil, nil, false
	}
	s, ok := n.Underlying().(*types.Struct)
	return n, s, ok
}

func (x *Exec) fieldAddr(ref Term, named *types.Named, st *types.Struct, i int) *Addr {
	f := st.Field(i)
	comp := fieldComp(named, f.Name())
	if _, ok := x.E.CompSorts[comp]; !ok {
		// foreign struct: register lazily
		x.E.CompSorts[comp] = ArrSort(sortOfOrInt(f.Type()))
	}
	return &Addr{Kind: AField, Comp: comp, Ref: ref, Typ: f.Type()}
}

func sortOfOrInt(t types.Type) string {
	s := sortOf(t)
	if s == "STRUCT" || s == "TUPLE" {
		return SInt
	}
	return s
}

// addrOfPtr converts a pointer value into an address descriptor.
func (x *Exec) addrOfPtr(p Value, pointee types.Type) (*Addr, bool) {
	switch p.Kind {
	case VAddr:
		return p.A, true
	case VTerm:
		if _, _, ok := x.structOf(pointee); ok {
			return nil, false // struct pointers are handled field-wise
		}
		comp := cellComp(pointee)
		if _, ok := x.E.CompSorts[comp]; !ok {
			x.E.CompSorts[comp] = ArrSort(sortOfOrInt(pointee))
		}
		return &Addr{Kind: ACell, Comp: comp, Ref: p.T, Typ: pointee}, true
	}
	return nil, false
}

func (x *Exec) loadAddr(st State, a *Addr) Term {
	switch a.Kind {
	case AElem:
		mem := x.comp(st, a.Comp)
		row := Select(mem, a.Ref, ArrSort(a.Elem))
		return Select(row, a.Idx, a.Elem)
	case AGlobal:
		return x.comp(st, a.Comp)
	default:
		c := x.comp(st, a.Comp)
		el, _ := elemOfArr(c.Sort)
		return Select(c, a.Ref, el)
	}
}

func (x *Exec) storeAddr(st State, a *Addr, v Term) {
	switch a.Kind {
	case AElem:
		mem := x.comp(st, a.Comp)
		row := Select(mem, a.Ref, ArrSort(a.Elem))
		x.setComp(st, a.Comp, Store(mem, a.Ref, Store(row, a.Idx, v)))
	case AGlobal:
		x.setComp(st, a.Comp, v)
	default:
		c := x.comp(st, a.Comp)
		x.setComp(st, a.Comp, Store(c, a.Ref, v))
	}
}

// load reads a value of type typ through pointer p.
func (x *Exec) load(st State, p Value, typ types.Type, guard Term, site string) Value {
	if p.Kind == VPoison {
		x.havoc(site + ": load through unsupported pointer (" + p.Why + ")")
		return x.freshValue(typ, "ld")
	}
	if named, sty, ok := x.structOf(typ); ok {
		if p.Kind != VTerm {
			x.havoc(site + ": struct load through interior pointer")
			return x.freshValue(typ, "ld")
		}
		out := Value{Kind: VStruct, Typ: typ}
		for i := 0; i < sty.NumFields(); i++ {
			fa := x.fieldAddr(p.T, named, sty, i)
			out.Fields = append(out.Fields, x.loadField(st, fa, site))
		}
		return out
	}
	a, ok := x.addrOfPtr(p, typ)
	if !ok {
		x.havoc(site + ": load through unsupported pointer")
		return x.freshValue(typ, "ld")
	}
	if a.Kind == AGlobal {
		if ext, isFV := funcVars[a.Comp]; isFV {
			return Value{Kind: VFunc, Ext: ext, Typ: typ}
		}
	}
	t := x.C.Def("ld", x.loadAddr(st, a))
	x.assumeTypeInv(st, guard, t, typ)
	return VT(t, typ)
}

func (x *Exec) loadField(st State, fa *Addr, site string) Value {
	if _, _, ok := x.structOf(fa.Typ); ok {
		x.havoc(site + ": nested struct field")
		return x.freshValue(fa.Typ, "ldf")
	}
	return VT(x.loadAddr(st, fa), fa.Typ)
}

func (x *Exec) store(st State, p Value, v Value, typ types.Type, site string) {
	if p.Kind == VPoison {
		x.havocAll(st, site+": store through unsupported pointer ("+p.Why+")")
		return
	}
	if named, sty, ok := x.structOf(typ); ok {
		if p.Kind != VTerm {
			x.havocAll(st, site+": struct store through interior pointer")
			return
		}
		for i := 0; i < sty.NumFields(); i++ {
			fa := x.fieldAddr(p.T, named, sty, i)
			var fv Value
			if v.Kind == VStruct && i < len(v.Fields) {
				fv = v.Fields[i]
			} else {
				fv = x.freshValue(fa.Typ, "stf")
				x.havoc(site + ": struct store of non-struct value")
			}
			x.storeAddr(st, fa, x.term(fv, fa.Typ, site))
		}
		return
	}
	a, ok := x.addrOfPtr(p, typ)
	if !ok {
		x.havocAll(st, site+": store through unsupported pointer")
		return
	}
	x.storeAddr(st, a, x.term(v, typ, site))
}

// havocAll forgets every heap component (used only at unsupported sites).
func (x *Exec) havocAll(st State, site string) {
	x.havoc(site + " [heap havoc]")
	for _, name := range x.E.compNames() {
		sort := x.E.CompSorts[name]
		if name == "alloc" {
			continue
		}
		st[name] = x.C.Fresh(name+"_hv", sort)
	}
}

// term converts a value to a single SMT term of the sort of typ.
func (x *Exec) term(v Value, typ types.Type, site string) Term {
	want := sortOfOrInt(typ)
	switch v.Kind {
	case VTerm:
		if v.T.Sort != want {
			// tolerate Int<->other only by havoc
			if v.T.Sort == "" {
				return x.C.Fresh("badterm", want)
			}
			if v.T.Sort != want {
				x.havoc(fmt.Sprintf("%s: sort mismatch %s vs %s", site, v.T.Sort, want))
				return x.C.Fresh("mismatch", want)
			}
		}
		return v.T
	case VAddr:
		if v.A.Kind == ACell {
			return v.A.Ref
		}
		x.havoc(site + ": interior pointer used as value")
		return x.C.Fresh("iptr", want)
	case VFunc:
		if v.Fn != nil && len(v.Binds) == 0 {
			return IntLit(int64(x.E.fnID(v.Fn)))
		}
		// closures / externals: fresh non-nil id
		t := x.C.Fresh("fnval", SInt)
		x.C.Assume(BoolLit(true), T(SBool, app(">", t.S, "0")))
		return t
	case VStruct:
		// single-field structs (Stack, Condition) flatten to their field
		if len(v.Fields) == 1 {
			return x.term(v.Fields[0], fieldType0(typ), site)
		}
		x.havoc(site + ": struct used as scalar")
		return x.C.Fresh("structval", want)
	}
	x.havoc(site + ": poison value used (" + v.Why + ")")
	return x.C.Fresh("poison", want)
}

func fieldType0(t types.Type) types.Type {
	if s, ok := t.Underlying().(*types.Struct); ok && s.NumFields() == 1 {
		return s.Field(0).Type()
	}
	return t
}

// freshValue creates an unconstrained value of a Go type.
func (x *Exec) freshValue(typ types.Type, hint string) Value {
	if _, sty, ok := x.structOf(typ); ok {
		out := Value{Kind: VStruct, Typ: typ}
		for i := 0; i < sty.NumFields(); i++ {
			out.Fields = append(out.Fields, x.freshValue(sty.Field(i).Type(), hint))
		}
		return out
	}
	if tup, ok := typ.(*types.Tuple); ok {
		out := Value{Kind: VStruct, Typ: typ}
		for i := 0; i < tup.Len(); i++ {
			out.Fields = append(out.Fields, x.freshValue(tup.At(i).Type(), hint))
		}
		return out
	}
	return VT(x.C.Fresh(hint, sortOfOrInt(typ)), typ)
}

func (x *Exec) zeroValue(typ types.Type) Value {
	if _, sty, ok := x.structOf(typ); ok {
		out := Value{Kind: VStruct, Typ: typ}
		for i := 0; i < sty.NumFields(); i++ {
			out.Fields = append(out.Fields, x.zeroValue(sty.Field(i).Type()))
		}
		return out
	}
	return VT(zeroOf(sortOfOrInt(typ)), typ)
}

// assumeTypeInv adds the generated type invariant of a value (guarded).
func (x *Exec) assumeTypeInv(st State, guard Term, t Term, typ types.Type) {
	al := x.comp(st, "alloc")
	switch t.Sort {
	case SInt:
		switch u := typ.Underlying().(type) {
		case *types.Basic:
			switch u.Kind() {
			case types.Int, types.Int64:
				x.C.Assume(guard, T(SBool, app("isInt64", t.S)))
			case types.Int32:
				x.C.Assume(guard, T(SBool, fmt.Sprintf("(and (<= (- 2147483648) %s) (<= %s 2147483647))", t.S, t.S)))
			case types.Uint8:
				x.C.Assume(guard, T(SBool, fmt.Sprintf("(and (<= 0 %s) (<= %s 255))", t.S, t.S)))
			case types.Uint16:
				x.C.Assume(guard, T(SBool, fmt.Sprintf("(and (<= 0 %s) (<= %s 65535))", t.S, t.S)))
			case types.Uint, types.Uint64, types.Uintptr:
				x.C.Assume(guard, T(SBool, fmt.Sprintf("(<= 0 %s)", t.S)))
			}
		case *types.Pointer, *types.Map:
			x.C.Assume(guard, T(SBool, fmt.Sprintf("(and (<= 0 %s) (< %s %s))", t.S, t.S, al.S)))
		case *types.Signature:
			x.C.Assume(guard, T(SBool, fmt.Sprintf("(<= 0 %s)", t.S)))
		}
	case SSlice:
		x.C.Assume(guard, T(SBool, app("okslice", t.S, al.S)))
	case SVal:
		x.C.Assume(guard, T(SBool, app("okval", t.S, al.S)))
	}
}

func (x *Exec) assumeValueInv(st State, guard Term, v Value) {
	switch v.Kind {
	case VTerm:
		x.assumeTypeInv(st, guard, v.T, v.Typ)
	case VStruct:
		for _, f := range v.Fields {
			x.assumeValueInv(st, guard, f)
		}
	}
}

// mergeValues builds ite(c, a, b).
func (x *Exec) mergeValues(c Term, a, b Value) Value {
	if c.S == "true" {
		return a
	}
	if c.S == "false" {
		return b
	}
	if a.Kind == VPoison {
		return a
	}
	if b.Kind == VPoison {
		return b
	}
	if a.Kind == VStruct && b.Kind == VStruct && len(a.Fields) == len(b.Fields) {
		out := Value{Kind: VStruct, Typ: a.Typ}
		for i := range a.Fields {
			out.Fields = append(out.Fields, x.mergeValues(c, a.Fields[i], b.Fields[i]))
		}
		return out
	}
	if a.Kind == VFunc && b.Kind == VFunc && a.Fn == b.Fn && a.Ext == b.Ext && len(a.Binds) == 0 && len(b.Binds) == 0 {
		return a
	}
	if a.Kind == VAddr && b.Kind == VAddr && a.A.Kind == b.A.Kind && a.A.Comp == b.A.Comp {
		na := *a.A
		na.Ref = Ite(c, a.A.Ref, b.A.Ref)
		if a.A.Kind == AElem {
			na.Idx = Ite(c, a.A.Idx, b.A.Idx)
		}
		return Value{Kind: VAddr, A: &na, Typ: a.Typ}
	}
	if (a.Kind == VTerm || a.Kind == VFunc || a.Kind == VAddr) && (b.Kind == VTerm || b.Kind == VFunc || b.Kind == VAddr) {
		typ := a.Typ
		if typ == nil {
			typ = b.Typ
		}
		if a.Kind == VAddr && a.A.Kind != ACell || b.Kind == VAddr && b.A.Kind != ACell {
			return poison("merge of interior pointers", typ)
		}
		ta := x.term(a, typ, "merge")
		tb := x.term(b, typ, "merge")
		if ta.Sort != tb.Sort {
			return poison("merge sort mismatch", typ)
		}
		return VT(Ite(c, ta, tb), typ)
	}
	return poison("merge of incompatible values", a.Typ)
}

func (x *Exec) mergeStates(c Term, a, b State) State {
	if c.S == "true" {
		return a
	}
	if c.S == "false" {
		return b
	}
	out := State{}
	for k := range a {
		out[k] = Term{}
	}
	for k := range b {
		out[k] = Term{}
	}
	for _, k := range sortedKeys(out) {
		ta := x.comp(a, k)
		tb := x.comp(b, k)
		if ta.S == tb.S {
			out[k] = ta
		} else {
			out[k] = x.C.Def(k+"_m", Ite(c, ta, tb))
		}
	}
	return out
}
