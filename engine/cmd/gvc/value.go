package main

// Engine-level values, addresses and heap access.

import (
	"fmt"
	"go/token"
	"go/types"
	"os"
	"strings"
	"time"

	"golang.org/x/tools/go/ssa"
)

const (
	VTerm = iota
	VAddr
	VStruct // struct value or tuple: Fields
	VFunc   // statically known function / closure / external
	VPoison // unsupported; any use havocs
)

const (
	AField = iota
	AElem
	ACell
	AGlobal
	ALocal // non-escaping local variable: its own scalar state component(s)
)

type Addr struct {
	Kind int
	Comp string
	Ref  Term // ref / arr id
	Idx  Term // absolute element index (AElem)
	Elem string
	Typ  types.Type // pointee type
	Origin *ssa.Alloc // ALocal: the allocation it belongs to
}

type Value struct {
	Kind   int
	T      Term
	A      *Addr
	Fields []Value
	Typ    types.Type
	Fn     *ssa.Function
	Ext    string  // external function key
	Binds  []Value // closure bindings
	Why    string  // poison reason
}

func VT(t Term, typ types.Type) Value { return Value{Kind: VTerm, T: t, Typ: typ} }

func poison(why string, typ types.Type) Value { return Value{Kind: VPoison, Why: why, Typ: typ} }

// Exec is one verification run of one top-level function.
type Exec struct {
	E        *Engine
	C        *Ctx
	Entry    State // entry state symbols (shared, grows lazily)
	Top      *ssa.Function
	TopCon   *Contract
	Havocs   []string // unsupported sites (each is a sound over-approximation)
	Assumed  map[string]bool
	Inlined  map[string]bool
	UsedCon  map[string]bool
	nonnil   map[string]bool
	knownLen map[string]int
	unfolded map[string]bool
	autoExcl map[string]bool
	Locals   map[string]string // local state components: name -> sort
	refEpoch map[string]string // fresh ref term -> epoch id at creation
	neid     int
	escaped  map[*ssa.Alloc]bool // locals whose address was needed as a value (re-run with them on the heap)
	forceHeap map[*ssa.Alloc]bool
	okCache  map[string]bool
	curPC    Term // path condition under which spec formulas are being compiled (for proveNow)
	heapInv  bool // assume closure of the entry heap under allocation (needed by epoch-stable spec functions)
	nlocal   int
	Active   map[string]*Contract // schema contracts usable at recursive call sites
	depth    int
	stack    []*ssa.Function
	goalSeq  map[string]int
	LockHavoc bool // C10 mode: lock() havocs protected state
	lockHavocHook func(fr *Frame, m Term, bc Term, st State)
	lockRecv Term  // lock mode: the *stack whose lock is being reasoned about
	lockCfg  Term  // its configuration record at entry
	lockMtx  Term  // its mutex at entry
	acqState State // state right after the lock was acquired (merged over paths)
	curFr    *Frame
	curPos   token.Pos
	curBc    Term
	safetyTags []string
}

func (x *Exec) havoc(site string) {
	x.Havocs = append(x.Havocs, site)
}

// comp returns the current term of a heap component, creating the entry symbol lazily.
func (x *Exec) comp(st State, name string) Term {
	if t, ok := st[name]; ok {
		return t
	}
	sort, ok := x.E.CompSorts[name]
	if !ok {
		sort, ok = x.Locals[name]
	}
	if !ok {
		panic("unknown heap component " + name)
	}
	t, ok := x.Entry[name]
	if !ok {
		t = x.C.Const(name+"_0", sort)
		x.Entry[name] = t
		x.entryHeapInv(name, t)
	}
	st[name] = t
	return t
}

func (x *Exec) setComp(st State, name string, t Term) {
	st[name] = x.C.Def(name, t)
}

const (
	kEid    = "@eid"
	kBalloc = "@balloc"
)

func curEid(st State) string {
	if t, ok := st[kEid]; ok {
		return t.S
	}
	return "0"
}

// epochReset: the base snapshot used for epoch-stable spec functions becomes the current state.
func (x *Exec) epochReset(st State) {
	for k := range st {
		if strings.HasPrefix(k, "@b:") {
			delete(st, k)
		}
	}
	x.neid++
	st[kEid] = Term{S: fmt.Sprint(x.neid)}
	st[kBalloc] = x.comp(st, "alloc")
}

// noteStore is called before a heap store to component name at reference ref.
func (x *Exec) noteStore(st State, name string, ref Term) (resetAfter bool) {
	if strings.HasPrefix(name, "_L") || strings.HasPrefix(name, "G_calls_") || name == "G_held" || name == "alloc" {
		return false
	}
	if e, ok := x.refEpoch[ref.S]; ok && e == curEid(st) {
		if _, has := st["@b:"+name]; !has {
			st["@b:"+name] = x.comp(st, name)
		}
		return false
	}
	return true
}

func (x *Exec) baseOf(st State, name string) Term {
	if t, ok := st["@b:"+name]; ok {
		return t
	}
	return x.comp(st, name)
}

func (x *Exec) baseAlloc(st State) Term {
	if t, ok := st[kBalloc]; ok {
		return t
	}
	return x.comp(x.Entry, "alloc")
}

func (x *Exec) freshRef(st State, hint string) Term {
	a := x.comp(st, "alloc")
	r := x.C.Def(hint, a)
	x.refEpoch[r.S] = curEid(st)
	x.setComp(st, "alloc", T(SInt, app("+", a.S, "1")))
	x.nonnil[r.S] = true
	return r
}

func (x *Exec) structOf(t types.Type) (*types.Named, *types.Struct, bool) {
	n, ok := t.(*types.Named)
	if !ok {
		if a, ok2 := t.(*types.Alias); ok2 {
			return x.structOf(types.Unalias(a))
		}
		return nil, nil, false
	}
	if _, op := opaqueStructSort(t); op {
		return nil, nil, false
	}
	s, ok := n.Underlying().(*types.Struct)
	return n, s, ok
}

func (x *Exec) fieldAddr(ref Term, named *types.Named, st *types.Struct, i int) *Addr {
	f := st.Field(i)
	comp := fieldComp(named, f.Name())
	if _, ok := x.E.CompSorts[comp]; !ok {
		// foreign struct: register lazily
		x.E.CompSorts[comp] = ArrSort(sortOfOrInt(f.Type()))
	}
	return &Addr{Kind: AField, Comp: comp, Ref: ref, Typ: f.Type()}
}

func sortOfOrInt(t types.Type) string {
	s := sortOf(t)
	if s == "STRUCT" || s == "TUPLE" {
		return SInt
	}
	return s
}

// addrOfPtr converts a pointer value into an address descriptor.
func (x *Exec) addrOfPtr(p Value, pointee types.Type) (*Addr, bool) {
	switch p.Kind {
	case VAddr:
		return p.A, true
	case VTerm:
		if _, _, ok := x.structOf(pointee); ok {
			return nil, false // struct pointers are handled field-wise
		}
		comp := cellComp(pointee)
		if _, ok := x.E.CompSorts[comp]; !ok {
			x.E.CompSorts[comp] = ArrSort(sortOfOrInt(pointee))
		}
		return &Addr{Kind: ACell, Comp: comp, Ref: p.T, Typ: pointee}, true
	}
	return nil, false
}

func (x *Exec) loadAddr(st State, a *Addr) Term {
	switch a.Kind {
	case ALocal:
		return x.comp(st, a.Comp)
	case AElem:
		mem := x.comp(st, a.Comp)
		row := Select(mem, a.Ref, ArrSort(a.Elem))
		return Select(row, a.Idx, a.Elem)
	case AGlobal:
		return x.comp(st, a.Comp)
	default:
		c := x.comp(st, a.Comp)
		el, _ := elemOfArr(c.Sort)
		return Select(c, a.Ref, el)
	}
}

func (x *Exec) storeAddr(st State, a *Addr, v Term) {
	if x.LockHavoc && a.Kind != ALocal {
		x.lockCheck(st, a.Comp, a.Ref)
	}
	if a.Kind != ALocal {
		ref := a.Ref
		if a.Kind == AGlobal {
			ref = Term{S: "?global"}
		}
		if x.noteStore(st, a.Comp, ref) {
			defer x.epochReset(st)
		}
	}
	switch a.Kind {
	case ALocal:
		x.setComp(st, a.Comp, v)
	case AElem:
		mem := x.comp(st, a.Comp)
		row := Select(mem, a.Ref, ArrSort(a.Elem))
		x.setComp(st, a.Comp, Store(mem, a.Ref, Store(row, a.Idx, v)))
	case AGlobal:
		x.setComp(st, a.Comp, v)
	default:
		c := x.comp(st, a.Comp)
		x.setComp(st, a.Comp, Store(c, a.Ref, v))
	}
}

// load reads a value of type typ through pointer p.
func (x *Exec) load(st State, p Value, typ types.Type, guard Term, site string) Value {
	if p.Kind == VPoison {
		x.havoc(site + ": load through unsupported pointer (" + p.Why + ")")
		return x.freshValue(typ, "ld")
	}
	if named, sty, ok := x.structOf(typ); ok {
		if p.Kind == VAddr && p.A.Kind == ALocal {
			out := Value{Kind: VStruct, Typ: typ}
			for i := 0; i < sty.NumFields(); i++ {
				f := sty.Field(i)
				if _, _, nested := x.structOf(f.Type()); nested {
					out.Fields = append(out.Fields, x.freshValue(f.Type(), "ldf"))
					continue
				}
				out.Fields = append(out.Fields, VT(x.comp(st, p.A.Comp+"."+f.Name()), f.Type()))
			}
			return out
		}
		if p.Kind != VTerm {
			x.havoc(site + ": struct load through interior pointer")
			return x.freshValue(typ, "ld")
		}
		out := Value{Kind: VStruct, Typ: typ}
		for i := 0; i < sty.NumFields(); i++ {
			fa := x.fieldAddr(p.T, named, sty, i)
			out.Fields = append(out.Fields, x.loadField(st, fa, site))
		}
		return out
	}
	a, ok := x.addrOfPtr(p, typ)
	if !ok {
		x.havoc(site + ": load through unsupported pointer")
		return x.freshValue(typ, "ld")
	}
	if a.Kind == AGlobal {
		if ext, isFV := funcVars[a.Comp]; isFV {
			return Value{Kind: VFunc, Ext: ext, Typ: typ}
		}
	}
	t := x.C.Def("ld", x.loadAddr(st, a))
	x.assumeTypeInv(st, guard, t, typ)
	x.markElem(t)
	return VT(t, typ)
}

// proveNow decides a side condition against the facts collected so far (no path condition), with a
// short timeout; used to resolve heap-agreement conditions of entry-stable spec functions while the
// VC is generated. A proved condition is also recorded as an obligation of kind "stable".
func (x *Exec) proveNow(cond Term) bool {
	if x.okCache == nil {
		x.okCache = map[string]bool{}
	}
	pc := BoolLit(true)
	if x.curPC.S != "" {
		pc = x.curPC
	}
	ckey := pc.S + "|" + cond.S
	if v, ok := x.okCache[ckey]; ok {
		return v
	}
	g := &Goal{Name: fmt.Sprintf("%s#stable#%d", fnKey(x.Top), len(x.okCache)), Func: fnKey(x.Top), Kind: "stable",
		Text: "heap component agrees with the entry heap below the entry allocation mark (side condition of an entry-stable spec function)", Guard: pc.S, Body: cond.S}
	g.upto = len(x.C.Items)
	q := x.C.Query(g, nil)
	r, _ := race(q, buildWorkdir(), sanitize(g.Name), 3*time.Second, false)
	ok := r.Status == "unsat"
	x.okCache[ckey] = ok
	if ok {
		x.C.AddGoal(g, pc, cond)
	}
	return ok
}

var buildWorkdirPath string

func buildWorkdir() string {
	if buildWorkdirPath == "" {
		d, err := os.MkdirTemp("", "gvc-build-")
		if err != nil {
			d = os.TempDir()
		}
		buildWorkdirPath = d
	}
	return buildWorkdirPath
}

// markElem: interface values read from the heap carry the trigger guard of the heap-wide
// element invariants (elemMark is uninterpreted and only ever asserted positively).
func (x *Exec) markElem(t Term) {
	if t.Sort != SVal {
		return
	}
	if _, ok := x.E.Funcs["elemMark"]; ok {
		x.C.Assume(BoolLit(true), T(SBool, app("elemMark", t.S)))
	}
}

func (x *Exec) loadField(st State, fa *Addr, site string) Value {
	if _, _, ok := x.structOf(fa.Typ); ok {
		x.havoc(site + ": nested struct field")
		return x.freshValue(fa.Typ, "ldf")
	}
	v := VT(x.loadAddr(st, fa), fa.Typ)
	if v.Kind == VTerm {
		x.markElem(v.T)
	}
	return v
}

func (x *Exec) store(st State, p Value, v Value, typ types.Type, site string) {
	if p.Kind == VPoison {
		x.havocAll(st, site+": store through unsupported pointer ("+p.Why+")")
		return
	}
	if named, sty, ok := x.structOf(typ); ok {
		if p.Kind == VAddr && p.A.Kind == ALocal {
			for i := 0; i < sty.NumFields(); i++ {
				f := sty.Field(i)
				if _, _, nested := x.structOf(f.Type()); nested {
					continue
				}
				var fv Value
				if v.Kind == VStruct && i < len(v.Fields) {
					fv = v.Fields[i]
				} else {
					fv = x.freshValue(f.Type(), "stf")
				}
				x.setComp(st, p.A.Comp+"."+f.Name(), x.term(fv, f.Type(), site))
			}
			return
		}
		if p.Kind != VTerm {
			x.havocAll(st, site+": struct store through interior pointer")
			return
		}
		for i := 0; i < sty.NumFields(); i++ {
			fa := x.fieldAddr(p.T, named, sty, i)
			var fv Value
			if v.Kind == VStruct && i < len(v.Fields) {
				fv = v.Fields[i]
			} else {
				fv = x.freshValue(fa.Typ, "stf")
				x.havoc(site + ": struct store of non-struct value")
			}
			x.storeAddr(st, fa, x.term(fv, fa.Typ, site))
		}
		return
	}
	a, ok := x.addrOfPtr(p, typ)
	if !ok {
		x.havocAll(st, site+": store through unsupported pointer")
		return
	}
	x.storeAddr(st, a, x.term(v, typ, site))
}

// havocAll forgets every heap component (used only at unsupported sites).
func (x *Exec) havocAll(st State, site string) {
	defer x.epochReset(st)
	x.havoc(site + " [heap havoc]")
	for _, name := range x.E.compNames() {
		sort := x.E.CompSorts[name]
		if name == "alloc" {
			continue
		}
		if name == "G_calls_len" {
			old := x.comp(st, name)
			n := x.C.Fresh(name+"_hv", sort)
			x.C.Assume(BoolLit(true), T(SBool, app(">=", n.S, old.S)))
			st[name] = n
			continue
		}
		if name == "G_held" {
			continue
		}
		st[name] = x.C.Fresh(name+"_hv", sort)
	}
}

// term converts a value to a single SMT term of the sort of typ.
func (x *Exec) term(v Value, typ types.Type, site string) Term {
	want := sortOfOrInt(typ)
	switch v.Kind {
	case VTerm:
		if v.T.Sort != want {
			// tolerate Int<->other only by havoc
			if v.T.Sort == "" {
				return x.C.Fresh("badterm", want)
			}
			if v.T.Sort != want {
				x.havoc(fmt.Sprintf("%s: sort mismatch %s vs %s", site, v.T.Sort, want))
				return x.C.Fresh("mismatch", want)
			}
		}
		return v.T
	case VAddr:
		if v.A.Kind == ACell {
			return v.A.Ref
		}
		if v.A.Kind == ALocal && v.A.Origin != nil {
			// optimistic local: its address escapes; the VC is rebuilt with this variable on the heap
			x.escaped[v.A.Origin] = true
			return x.C.Fresh("escaping", want)
		}
		x.havoc(site + ": interior pointer used as value")
		return x.C.Fresh("iptr", want)
	case VFunc:
		if v.Fn != nil && len(v.Binds) == 0 {
			return IntLit(int64(x.E.fnID(v.Fn)))
		}
		// closures / externals: fresh non-nil id
		t := x.C.Fresh("fnval", SInt)
		x.C.Assume(BoolLit(true), T(SBool, app(">", t.S, "0")))
		return t
	case VStruct:
		// single-field structs (Stack, Condition) flatten to their field
		if len(v.Fields) == 1 {
			return x.term(v.Fields[0], fieldType0(typ), site)
		}
		x.havoc(site + ": struct used as scalar")
		return x.C.Fresh("structval", want)
	}
	x.havoc(site + ": poison value used (" + v.Why + ")")
	return x.C.Fresh("poison", want)
}

func fieldType0(t types.Type) types.Type {
	if s, ok := t.Underlying().(*types.Struct); ok && s.NumFields() == 1 {
		return s.Field(0).Type()
	}
	return t
}

// freshValue creates an unconstrained value of a Go type.
func (x *Exec) freshValue(typ types.Type, hint string) Value {
	if _, sty, ok := x.structOf(typ); ok {
		out := Value{Kind: VStruct, Typ: typ}
		for i := 0; i < sty.NumFields(); i++ {
			out.Fields = append(out.Fields, x.freshValue(sty.Field(i).Type(), hint))
		}
		return out
	}
	if tup, ok := typ.(*types.Tuple); ok {
		out := Value{Kind: VStruct, Typ: typ}
		for i := 0; i < tup.Len(); i++ {
			out.Fields = append(out.Fields, x.freshValue(tup.At(i).Type(), hint))
		}
		return out
	}
	return VT(x.C.Fresh(hint, sortOfOrInt(typ)), typ)
}

func (x *Exec) zeroValue(typ types.Type) Value {
	if _, sty, ok := x.structOf(typ); ok {
		out := Value{Kind: VStruct, Typ: typ}
		for i := 0; i < sty.NumFields(); i++ {
			out.Fields = append(out.Fields, x.zeroValue(sty.Field(i).Type()))
		}
		return out
	}
	return VT(zeroOf(sortOfOrInt(typ)), typ)
}

// assumeTypeInv adds the generated type invariant of a value (guarded).
func (x *Exec) assumeTypeInv(st State, guard Term, t Term, typ types.Type) {
	al := x.comp(st, "alloc")
	switch t.Sort {
	case SInt:
		switch u := typ.Underlying().(type) {
		case *types.Basic:
			switch u.Kind() {
			case types.Int, types.Int64:
				x.C.Assume(guard, T(SBool, app("isInt64", t.S)))
			case types.Int32:
				x.C.Assume(guard, T(SBool, fmt.Sprintf("(and (<= (- 2147483648) %s) (<= %s 2147483647))", t.S, t.S)))
			case types.Uint8:
				x.C.Assume(guard, T(SBool, fmt.Sprintf("(and (<= 0 %s) (<= %s 255))", t.S, t.S)))
			case types.Uint16:
				x.C.Assume(guard, T(SBool, fmt.Sprintf("(and (<= 0 %s) (<= %s 65535))", t.S, t.S)))
			case types.Uint, types.Uint64, types.Uintptr:
				x.C.Assume(guard, T(SBool, fmt.Sprintf("(<= 0 %s)", t.S)))
			}
		case *types.Pointer, *types.Map:
			x.C.Assume(guard, T(SBool, fmt.Sprintf("(and (<= 0 %s) (< %s %s))", t.S, t.S, al.S)))
		case *types.Signature:
			x.C.Assume(guard, T(SBool, fmt.Sprintf("(<= 0 %s)", t.S)))
		}
	case SStr:
		if strings.ContainsAny(t.S, "( ") || !strings.HasPrefix(t.S, "\"") {
			x.C.Assume(guard, T(SBool, fmt.Sprintf("(<= (str.len %s) 72057594037927936)", t.S)))
		}
	case SSlice:
		x.C.Assume(guard, T(SBool, app("okslice", t.S, al.S)))
	case SVal:
		x.C.Assume(guard, T(SBool, app("okval", t.S, al.S)))
		if it, ok := typ.Underlying().(*types.Interface); ok && it.NumMethods() > 0 {
			// a value of a non-empty interface type is nil or holds a dynamic type implementing it
			x.C.Assume(guard, Or(Eq(t, T(SVal, "nilv")), x.implementsTerm(t, typ)))
		}
	}
}

func (x *Exec) assumeValueInv(st State, guard Term, v Value) {
	switch v.Kind {
	case VTerm:
		x.assumeTypeInv(st, guard, v.T, v.Typ)
	case VStruct:
		for _, f := range v.Fields {
			x.assumeValueInv(st, guard, f)
		}
	}
}

// mergeValues builds ite(c, a, b).
func (x *Exec) mergeValues(c Term, a, b Value) Value {
	if c.S == "true" {
		return a
	}
	if c.S == "false" {
		return b
	}
	if a.Kind == VPoison {
		return a
	}
	if b.Kind == VPoison {
		return b
	}
	if a.Kind == VStruct && b.Kind == VStruct && len(a.Fields) == len(b.Fields) {
		out := Value{Kind: VStruct, Typ: a.Typ}
		for i := range a.Fields {
			out.Fields = append(out.Fields, x.mergeValues(c, a.Fields[i], b.Fields[i]))
		}
		return out
	}
	if a.Kind == VFunc && b.Kind == VFunc && a.Fn == b.Fn && a.Ext == b.Ext && len(a.Binds) == 0 && len(b.Binds) == 0 {
		return a
	}
	if a.Kind == VAddr && b.Kind == VAddr && a.A.Kind == ALocal && b.A.Kind == ALocal && a.A.Comp != b.A.Comp {
		if a.A.Origin != nil {
			x.escaped[a.A.Origin] = true
		}
		if b.A.Origin != nil {
			x.escaped[b.A.Origin] = true
		}
	}
	if a.Kind == VAddr && b.Kind == VAddr && a.A.Kind == b.A.Kind && a.A.Comp == b.A.Comp {
		na := *a.A
		na.Ref = Ite(c, a.A.Ref, b.A.Ref)
		if a.A.Kind == AElem {
			na.Idx = Ite(c, a.A.Idx, b.A.Idx)
		}
		return Value{Kind: VAddr, A: &na, Typ: a.Typ}
	}
	if (a.Kind == VTerm || a.Kind == VFunc || a.Kind == VAddr) && (b.Kind == VTerm || b.Kind == VFunc || b.Kind == VAddr) {
		typ := a.Typ
		if typ == nil {
			typ = b.Typ
		}
		if a.Kind == VAddr && a.A.Kind != ACell || b.Kind == VAddr && b.A.Kind != ACell {
			return poison("merge of interior pointers", typ)
		}
		ta := x.term(a, typ, "merge")
		tb := x.term(b, typ, "merge")
		if ta.Sort != tb.Sort {
			return poison("merge sort mismatch", typ)
		}
		return VT(Ite(c, ta, tb), typ)
	}
	return poison("merge of incompatible values", a.Typ)
}

func (x *Exec) mergeStates(c Term, a, b State) State {
	if c.S == "true" {
		return a
	}
	if c.S == "false" {
		return b
	}
	out := State{}
	for k := range a {
		if !strings.HasPrefix(k, "@b:") && k != kEid && k != kBalloc {
			out[k] = Term{}
		}
	}
	for k := range b {
		if !strings.HasPrefix(k, "@b:") && k != kEid && k != kBalloc {
			out[k] = Term{}
		}
	}
	sameEpoch := curEid(a) == curEid(b)
	defer func() {
		if sameEpoch {
			// keep the common base snapshot where both sides agree on it
			ok := true
			for k, v := range a {
				if strings.HasPrefix(k, "@b:") || k == kBalloc {
					if w, has := b[k]; !has || w.S != v.S {
						ok = false
					}
				}
			}
			for k := range b {
				if strings.HasPrefix(k, "@b:") || k == kBalloc {
					if _, has := a[k]; !has {
						ok = false
					}
				}
			}
			if ok {
				for k, v := range a {
					if strings.HasPrefix(k, "@b:") || k == kBalloc || k == kEid {
						out[k] = v
					}
				}
				return
			}
			// bases differ only in which components were touched: complete both sides
			all := map[string]bool{}
			for k := range a {
				if strings.HasPrefix(k, "@b:") {
					all[k] = true
				}
			}
			for k := range b {
				if strings.HasPrefix(k, "@b:") {
					all[k] = true
				}
			}
			good := true
			for k := range all {
				name := strings.TrimPrefix(k, "@b:")
				va, hasA := a[k]
				vb, hasB := b[k]
				if !hasA {
					va = x.comp(a, name)
				}
				if !hasB {
					vb = x.comp(b, name)
				}
				if va.S != vb.S {
					good = false
				}
			}
			ba, hasBA := a[kBalloc]
			bb, hasBB := b[kBalloc]
			if hasBA != hasBB || (hasBA && ba.S != bb.S) {
				good = false
			}
			if good {
				for k := range all {
					name := strings.TrimPrefix(k, "@b:")
					if v, has := a[k]; has {
						out[k] = v
					} else {
						out[k] = x.comp(a, name)
					}
				}
				if hasBA {
					out[kBalloc] = ba
				}
				if e, has := a[kEid]; has {
					out[kEid] = e
				}
				return
			}
		}
		x.epochReset(out)
	}()
	for _, k := range sortedKeys(out) {
		ta := x.comp(a, k)
		tb := x.comp(b, k)
		if ta.S == tb.S {
			out[k] = ta
		} else {
			out[k] = x.C.Def(k+"_m", Ite(c, ta, tb))
		}
	}
	return out
}

// entryHeapInv: the entry heap is closed under allocation (every reference stored in it exists).
func (x *Exec) entryHeapInv(name string, t Term) {
	if name == "alloc" || !x.heapInv {
		return
	}
	var al string
	if a, ok := x.Entry["alloc"]; ok {
		al = a.S
	} else {
		al = x.comp(x.Entry, "alloc").S
	}
	switch name {
	case "Mem_Val":
		x.C.Assume(BoolLit(true), T(SBool, fmt.Sprintf("(forall ((a Int) (i Int)) (! (okval (select (select %s a) i) %s) :pattern ((select (select %s a) i))))", t.S, al, t.S)))
	case "Mem_Slice":
		x.C.Assume(BoolLit(true), T(SBool, fmt.Sprintf("(forall ((a Int) (i Int)) (! (okslice (select (select %s a) i) %s) :pattern ((select (select %s a) i))))", t.S, al, t.S)))
	case "Cell_stack", "F_nodeConfig_enc":
		x.C.Assume(BoolLit(true), T(SBool, fmt.Sprintf("(forall ((q Int)) (! (okslice (select %s q) %s) :pattern ((select %s q))))", t.S, al, t.S)))
	case "F_condition_op":
		// static type Operator: nil or a dynamic type that implements it
		x.C.Assume(BoolLit(true), T(SBool, fmt.Sprintf("(forall ((q Int)) (! (and (okval (select %s q) %s) (or (= (select %s q) nilv) (isOperator (select %s q)))) :pattern ((select %s q))))", t.S, al, t.S, t.S, t.S)))
	case "F_condition_ex", "F_nodeConfig_err":
		x.C.Assume(BoolLit(true), T(SBool, fmt.Sprintf("(forall ((q Int)) (! (okval (select %s q) %s) :pattern ((select %s q))))", t.S, al, t.S)))
	case "F_condition_cfg", "F_Stack_stack", "F_Condition_condition", "F_nodeConfig_log", "F_nodeConfig_mtx":
		x.C.Assume(BoolLit(true), T(SBool, fmt.Sprintf("(forall ((q Int)) (! (okref (select %s q) %s) :pattern ((select %s q))))", t.S, al, t.S)))
	}
}
