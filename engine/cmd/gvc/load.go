package main

import (
	"fmt"
	"go/types"
	"os"
	"path/filepath"
	"sort"
	"strings"

	"golang.org/x/tools/go/packages"
	"golang.org/x/tools/go/ssa"
	"golang.org/x/tools/go/ssa/ssautil"
)

type Engine struct {
	RepoDir   string
	VerifDir  string
	Prog      *ssa.Program
	Pkg       *ssa.Package
	TPkg      *types.Package
	Contracts map[string]*Contract
	Prelude   string
	Funcs     map[string]*PreludeFn
	CompSorts map[string]string
	Others    otherTypes
	FnByKey   map[string]*ssa.Function
	fnIDs     map[*ssa.Function]int
	Structs   map[string]*types.Named
	Trusted   []string // ;;@trusted lines of the prelude
	Tables    *Tables
	RecDefs   map[string]*recDef
	Active    map[string]*Contract
	Epoch     map[string]bool
	Estable     map[string]bool
	Lemmas      []*Lemma
	PreludeBase string // prelude without the lemma statements
}

func loadEngine(repo, verif string) (*Engine, error) {
	cfg := &packages.Config{
		Mode:       packages.LoadAllSyntax,
		Dir:        repo,
		BuildFlags: []string{"-tags=verif"},
		Env:        append(os.Environ(), "GOFLAGS=-mod=mod", "GOPROXY=off", "GOSUMDB=off", "GOTOOLCHAIN=local"),
	}
	pkgs, err := packages.Load(cfg, ".")
	if err != nil {
		return nil, err
	}
	if len(pkgs) != 1 {
		return nil, fmt.Errorf("expected one package, got %d", len(pkgs))
	}
	if len(pkgs[0].Errors) > 0 {
		return nil, fmt.Errorf("package errors: %v", pkgs[0].Errors)
	}
	prog, spkgs := ssautil.AllPackages(pkgs, ssa.GlobalDebug)
	prog.Build()
	e := &Engine{RepoDir: repo, VerifDir: verif, Prog: prog, Pkg: spkgs[0], TPkg: pkgs[0].Types,
		CompSorts: map[string]string{}, FnByKey: map[string]*ssa.Function{}, fnIDs: map[*ssa.Function]int{},
		Structs: map[string]*types.Named{}}

	// prelude
	var pb strings.Builder
	pb.WriteString(valDatatype)
	files, _ := filepath.Glob(filepath.Join(verif, "spec", "*.smt2"))
	sort.Strings(files)
	for _, f := range files {
		data, err := os.ReadFile(f)
		if err != nil {
			return nil, err
		}
		pb.Write(data)
		pb.WriteString("\n")
		for _, l := range strings.Split(string(data), "\n") {
			if strings.Contains(l, ";;@trusted") {
				e.Trusted = append(e.Trusted, filepath.Base(f)+": "+strings.TrimSpace(l))
			}
		}
	}
	e.Funcs = parsePreludeSigs(pb.String())
	e.Epoch = map[string]bool{}
	for _, l := range strings.Split(pb.String(), "\n") {
		if strings.HasPrefix(l, ";;@epoch ") {
			for _, k := range strings.Fields(strings.TrimPrefix(l, ";;@epoch ")) {
				e.Epoch[k] = true
			}
		}
	}
	e.Estable = map[string]bool{}
	for _, l := range strings.Split(pb.String(), "\n") {
		if strings.HasPrefix(l, ";;@estable ") {
			for _, k := range strings.Fields(strings.TrimPrefix(l, ";;@estable ")) {
				e.Estable[k] = true
			}
		}
	}
	e.Prelude, e.RecDefs = splitRecDefs(pb.String())
	e.PreludeBase = e.Prelude
	lem, err := loadLemmas(filepath.Join(verif, "spec", "lemmas"))
	if err != nil {
		return nil, err
	}
	e.Lemmas = lem
	relaxDefs = e.RecDefs
	relaxPats = preludeAxiomPats(e.PreludeBase)
	for _, l := range lem {
		if l.Axiom {
			e.Prelude += l.Statement
		}
	}

	// contracts
	cpath := filepath.Join(repo, "contracts_verif.go")
	if _, err := os.Stat(cpath); err == nil {
		e.Contracts, err = parseContractFile(cpath)
		if err != nil {
			return nil, err
		}
	} else {
		e.Contracts = map[string]*Contract{}
	}

	// functions by key
	for fn := range ssautil.AllFunctions(prog) {
		if fn.Pkg != e.Pkg {
			continue
		}
		e.FnByKey[fnKey(fn)] = fn
	}
	for k, c := range e.Contracts {
		if _, ok := e.FnByKey[c.FnKey]; !ok {
			return nil, fmt.Errorf("contracts_verif.go:%d: no function %q in package", c.Line, k)
		}
	}
	e.discoverComponents()
	tb, err := loadTables(filepath.Join(verif, "spec", "tables.json"))
	if err != nil {
		return nil, err
	}
	e.Tables = tb
	return e, nil
}

func fnKey(fn *ssa.Function) string {
	if fn.Pkg != nil {
		return fn.RelString(fn.Pkg.Pkg)
	}
	return fn.String()
}

func (e *Engine) fnID(fn *ssa.Function) int {
	if id, ok := e.fnIDs[fn]; ok {
		return id
	}
	id := 1000 + len(e.fnIDs)
	e.fnIDs[fn] = id
	return id
}

// discoverComponents enumerates heap components from the package's types.
func (e *Engine) discoverComponents() {
	add := func(name, sort string) { e.CompSorts[name] = sort }
	scope := e.TPkg.Scope()
	for _, n := range scope.Names() {
		tn, ok := scope.Lookup(n).(*types.TypeName)
		if !ok {
			continue
		}
		named, ok := tn.Type().(*types.Named)
		if !ok {
			continue
		}
		st, ok := named.Underlying().(*types.Struct)
		if !ok {
			continue
		}
		e.Structs[tn.Name()] = named
		for i := 0; i < st.NumFields(); i++ {
			f := st.Field(i)
			add(fieldComp(named, f.Name()), ArrSort(sortOf(f.Type())))
		}
	}
	for _, s := range []string{SVal, SStr, SInt, SBool, SSlice, SBV8, SBV16, SRVal} {
		add(memComp(s), Arr2Sort(s))
	}
	add("alloc", SInt)
	// cells: every pointer-to-nonstruct type appearing in the package SSA
	seen := map[string]bool{}
	visitType := func(t types.Type) {
		p, ok := t.Underlying().(*types.Pointer)
		if !ok {
			return
		}
		el := p.Elem()
		if isStructLike(el) {
			return
		}
		if _, isArr := el.Underlying().(*types.Array); isArr {
			return
		}
		k := cellComp(el)
		if !seen[k] {
			seen[k] = true
			add(k, ArrSort(sortOf(el)))
		}
	}
	for _, fn := range e.FnByKey {
		for _, p := range fn.Params {
			visitType(p.Type())
		}
		for _, b := range fn.Blocks {
			for _, ins := range b.Instrs {
				if v, ok := ins.(ssa.Value); ok {
					visitType(v.Type())
				}
			}
		}
	}
	// globals
	for _, m := range e.Pkg.Members {
		if g, ok := m.(*ssa.Global); ok {
			el := g.Type().(*types.Pointer).Elem()
			if isStructLike(el) {
				continue
			}
			add("G_"+g.Name(), sortOf(el))
		}
	}
	// maps: has/val/len per (key sort, val sort) actually used
	for _, kv := range [][2]string{{SStr, SVal}, {SStr, SStr}, {SStr, SBV16}, {SBV16, SStr}} {
		n := mapCompBase(kv[0], kv[1])
		add(n+"_has", ArrSort("(Array "+kv[0]+" Bool)"))
		add(n+"_val", ArrSort("(Array "+kv[0]+" "+kv[1]+")"))
	}
	add("Map_len", ArrSort(SInt))
	// ghost
	add("G_calls_len", SInt)
	add("G_calls_fn", ArrSort(SInt))
	add("G_calls_arg", ArrSort(SVal))
	add("G_held", ArrSort(SBool)) // per mutex ref
}

func (e *Engine) compNames() []string { return sortedKeys(e.CompSorts) }

func sortShort(s string) string {
	switch s {
	case SBV8:
		return "BV8"
	case SBV16:
		return "BV16"
	case SStr:
		return "Str"
	}
	return s
}
func mapCompBase(k, v string) string { return "Map_" + sortShort(k) + "_" + sortShort(v) }
