package main

// Schema contracts generated for every exported method (filled in below).

func (e *Engine) schemaContract(key string) *Contract { return nil }

func (e *Engine) schemaContracts(prop string) map[string]*Contract { return map[string]*Contract{} }
