package main

// Schema contracts: generated for every exported method / function that
// go/types finds, so that methods added later receive the obligations too.

import (
	"fmt"
	"go/types"
	"strings"

	"golang.org/x/tools/go/ssa"
)

func mkClause(kind, label, expr string, tags ...string) *Clause {
	a, err := parseExpr(expr)
	if err != nil {
		panic(fmt.Sprintf("schema clause %s: %v", label, err))
	}
	return &Clause{Kind: kind, Label: label, Expr: expr, Tags: tags, ast: a}
}

type recvInfo struct {
	kind string // Stack, *Stack, Condition, *Condition, Auxiliary, other, none
	name string
}

func recvOf(fn *ssa.Function) recvInfo {
	sig := fn.Signature
	if sig.Recv() == nil {
		return recvInfo{kind: "none"}
	}
	name := fn.Params[0].Name()
	switch typeKey(sig.Recv().Type()) {
	case "Stack":
		return recvInfo{"Stack", name}
	case "*Stack":
		return recvInfo{"*Stack", name}
	case "Condition":
		return recvInfo{"Condition", name}
	case "*Condition":
		return recvInfo{"*Condition", name}
	case "Auxiliary":
		return recvInfo{"Auxiliary", name}
	}
	return recvInfo{"other", name}
}

// inner: spec expression for the embedded pointer of the receiver
func (r recvInfo) inner() string {
	switch r.kind {
	case "Stack", "Condition":
		return r.name
	case "*Stack":
		return "F_Stack_stack[" + r.name + "]"
	case "*Condition":
		return "F_Condition_condition[" + r.name + "]"
	}
	return ""
}

func (r recvInfo) isStack() bool { return r.kind == "Stack" || r.kind == "*Stack" }
func (r recvInfo) isCond() bool  { return r.kind == "Condition" || r.kind == "*Condition" }

func (r recvInfo) wfExpr() string {
	in := r.inner()
	switch {
	case r.isStack():
		return fmt.Sprintf("wf(%s)", in)
	case r.isCond():
		return fmt.Sprintf("cwf(%s)", in)
	}
	return "true"
}

func (r recvInfo) ptrNonNil() string {
	if r.kind == "*Stack" || r.kind == "*Condition" {
		return r.name + " != nil && "
	}
	return ""
}

func (r recvInfo) roExpr() string {
	in := r.inner()
	if r.isStack() {
		return fmt.Sprintf("bit(F_nodeConfig_opt[cfgOf(%s)], 0x0080)", in)
	}
	return fmt.Sprintf("bit(F_nodeConfig_opt[F_condition_cfg[%s]], 0x0080)", in)
}

var ghostFrameSkip = []string{"G_calls_", "G_held"}

func zeroExpr(t types.Type, recv recvInfo) (string, bool) {
	switch sortOfOrInt(t) {
	case SInt:
		return "0", true
	case SBool:
		return "false", true
	case SStr:
		return `""`, true
	case SVal:
		return "nil", true
	case SSlice:
		return "", false
	}
	return "", false
}

// schemaFor builds the schema contract of one function for one property; nil if not applicable.
func (e *Engine) schemaFor(fn *ssa.Function, prop string) *Contract {
	key := fnKey(fn)
	rv := recvOf(fn)
	con := &Contract{Key: key, LoopInv: map[int][]*Clause{}, HasBody: true, Schema: prop, FrameSkip: ghostFrameSkip}
	if base := e.Contracts[key]; base != nil {
		con.LoopInv = base.LoopInv
		con.Lets = append(con.Lets, base.Lets...)
	}
	in := rv.inner()
	pre := func() {
		if rv.isStack() || rv.isCond() {
			con.Requires = append(con.Requires, mkClause("requires", "S.wf-or-nil", fmt.Sprintf("%s(%s == nil || %s)", rv.ptrNonNil(), in, rv.wfExpr())))
		}
	}
	switch prop {
	case "C08":
		// S-safe + S-wf: returns normally for every argument and keeps the instance well formed
		if rv.kind == "other" || !hasIntParam(fn) {
			return nil
		}
		if _, ex := e.Tables.SafeExclude[key]; ex {
			return nil
		}
		pre()
		con.Tags = []string{"C08"}
		con.SafetyTags = []string{"C08"}
		con.NoFrame = true
		if rv.isStack() {
			con.Ensures = append(con.Ensures, mkClause("ensures", "S-wf", fmt.Sprintf("old(%s) != nil && %s != nil ==> wf(%s) && cfgOf(%s) == old(cfgOf(%s))", in, in, in, in, in), "C08"))
			con.Ensures = append(con.Ensures, mkClause("ensures", "S-own", fmt.Sprintf("old(%s) != nil && %s == old(%s) ==> arr(hdr(%s)) == old(arr(hdr(%s))) || fresh(arr(hdr(%s)))", in, in, in, in, in, in), "C08"))
		}
		if rv.isCond() {
			con.Ensures = append(con.Ensures, mkClause("ensures", "S-cwf", fmt.Sprintf("old(%s) != nil && %s == old(%s) ==> cwf(%s)", in, in, in, in), "C08"))
		}
		return con
	case "C17":
		// S-nil: uninitialised receivers are inert
		if rv.kind == "none" || rv.kind == "other" {
			return nil
		}
		if _, exc := e.Tables.NilExceptions[key]; exc {
			return nil
		}
		con.Tags = []string{"C17"}
		con.SafetyTags = []string{"C17"}
		switch {
		case rv.isStack() || rv.isCond():
			con.Requires = append(con.Requires, mkClause("requires", "S.nil", fmt.Sprintf("%s%s == nil", rv.ptrNonNil(), in)))
		case rv.kind == "Auxiliary":
			con.Requires = append(con.Requires, mkClause("requires", "S.nil", rv.name+" == nil"))
		}
		res := fn.Signature.Results()
		for i := 0; i < res.Len(); i++ {
			rn := fmt.Sprintf("result%d", i)
			if ov, ok := e.Tables.NilResults[key][rn]; ok {
				if ov != "" {
					con.Ensures = append(con.Ensures, mkClause("ensures", "S-nil."+rn, ov, "C17"))
				}
				continue
			}
			rt := res.At(i).Type()
			tk := typeKey(rt)
			if tk == "Stack" || tk == "Condition" || tk == "Auxiliary" {
				if in != "" && (tk == "Stack" && rv.isStack() || tk == "Condition" && rv.isCond()) || rv.kind == "Auxiliary" {
					con.Ensures = append(con.Ensures, mkClause("ensures", "S-nil."+rn, rn+" == nil", "C17"))
				}
				continue
			}
			if z, ok := zeroExpr(rt, rv); ok {
				con.Ensures = append(con.Ensures, mkClause("ensures", "S-nil."+rn, rn+" == "+z, "C17"))
			} else if sortOfOrInt(rt) == SSlice {
				con.Ensures = append(con.Ensures, mkClause("ensures", "S-nil."+rn, "len("+rn+") == 0", "C17"))
			}
		}
		if rv.kind == "*Stack" || rv.kind == "*Condition" {
			con.Ensures = append(con.Ensures, mkClause("ensures", "S-nil.stays", in+" == nil", "C17"))
		}
		return con
	case "C09":
		if !(rv.isStack() || rv.isCond()) {
			return nil
		}
		if _, exc := e.Tables.ROExceptions[key]; exc {
			return nil
		}
		con.Tags = []string{"C09"}
		con.SafetyTags = []string{"C09x"}
		con.Requires = append(con.Requires, mkClause("requires", "S.ro", fmt.Sprintf("%s%s != nil && %s && %s", rv.ptrNonNil(), in, rv.wfExpr(), rv.roExpr())))
		if extra, ok := e.Tables.ROModifies[key]; ok {
			for _, part := range splitTop(extra.Modifies, ',') {
				part = strings.TrimSpace(part)
				mt := &ModTarget{Comp: part}
				if i := strings.IndexByte(part, '['); i > 0 && strings.HasSuffix(part, "]") {
					mt.Comp = part[:i]
					mt.Idx = strings.TrimSpace(part[i+1 : len(part)-1])
					if mt.Idx != "fresh" {
						a, err := parseExpr(mt.Idx)
						if err != nil {
							panic(err)
						}
						mt.ast = a
					}
				}
				con.Modifies = append(con.Modifies, mt)
			}
			if extra.Requires != "" {
				con.Requires = append(con.Requires, mkClause("requires", "S.ro.extra", extra.Requires))
			}
		}
		if fn.Name() == "Free" {
			con.Ensures = append(con.Ensures, mkClause("ensures", "S-ro.free", "err != nil", "C09"))
		}
		return con
	case "C11":
		if !(rv.isStack() || rv.isCond()) {
			return nil
		}
		if _, mut := e.Tables.Mutators[key]; mut {
			return nil
		}
		pre()
		con.Tags = []string{"C11"}
		con.SafetyTags = []string{"C11x"}
		return con
	}
	return nil
}

func (e *Engine) schemaContracts(prop string) map[string]*Contract {
	out := map[string]*Contract{}
	switch prop {
	case "C08", "C09", "C11", "C17":
	default:
		return out
	}
	for _, fn := range e.exportedAPI() {
		if c := e.schemaFor(fn, prop); c != nil {
			out[fnKey(fn)] = c
		}
	}
	e.Active = out
	return out
}

func (e *Engine) schemaContract(key string) *Contract { return nil }

func hasIntParam(fn *ssa.Function) bool {
	ps := fn.Signature.Params()
	for i := 0; i < ps.Len(); i++ {
		t := ps.At(i).Type()
		if sl, ok := t.Underlying().(*types.Slice); ok {
			t = sl.Elem()
		}
		if b, ok := t.Underlying().(*types.Basic); ok && b.Kind() == types.Int {
			return true
		}
	}
	return false
}
