package main

// Go type -> SMT sort mapping, heap component naming, boxed-value table.

import (
	"fmt"
	"go/types"
	"strings"
)

type TypeInfo struct {
	pkg *types.Package
}

// kind of representation chosen for a Go type
const (
	KScalar = iota // one SMT term
	KStruct        // engine-level record of fields
	KTuple
)

func isNamed(t types.Type, pkgPath, name string) bool {
	n, ok := t.(*types.Named)
	if !ok {
		return false
	}
	o := n.Obj()
	if o.Name() != name {
		return false
	}
	if o.Pkg() == nil {
		return pkgPath == ""
	}
	return o.Pkg().Path() == pkgPath
}

// opaqueStructSort: external struct types modelled as a single scalar.
func opaqueStructSort(t types.Type) (string, bool) {
	switch {
	case isNamed(t, "strings", "Builder"):
		return SStr, true // ghost content
	case isNamed(t, "time", "Time"):
		return SInt, true
	case isNamed(t, "reflect", "Value"):
		return SRVal, true
	case isNamed(t, "reflect", "StructField"):
		return SRVal, true
	case isNamed(t, "sync", "Mutex"):
		return SInt, true
	}
	return "", false
}

func isStructLike(t types.Type) bool {
	if _, ok := opaqueStructSort(t); ok {
		return false
	}
	_, ok := t.Underlying().(*types.Struct)
	return ok
}

// sortOf returns the SMT sort of a scalar-represented Go type.
func sortOf(t types.Type) string {
	if s, ok := opaqueStructSort(t); ok {
		return s
	}
	switch u := t.Underlying().(type) {
	case *types.Basic:
		switch {
		case u.Info()&types.IsBoolean != 0:
			return SBool
		case u.Info()&types.IsString != 0:
			return SStr
		case u.Kind() == types.Uint8 || u.Kind() == types.Uint16:
			if _, named := t.(*types.Named); named {
				if u.Kind() == types.Uint8 {
					return SBV8
				}
				return SBV16
			}
			return SInt
		case u.Kind() == types.UntypedNil:
			return SVal
		default:
			return SInt // ints, floats (opaque), unsafe.Pointer
		}
	case *types.Pointer, *types.Map, *types.Signature, *types.Chan:
		return SInt
	case *types.Slice:
		return SSlice
	case *types.Interface:
		return SVal
	case *types.Struct:
		return "STRUCT"
	case *types.Array:
		return SInt // arrays are only handled behind pointers (arr id)
	case *types.Tuple:
		return "TUPLE"
	}
	return SInt
}

func zeroOf(sort string) Term {
	switch sort {
	case SInt:
		return IntLit(0)
	case SBool:
		return BoolLit(false)
	case SStr:
		return T(SStr, `""`)
	case SVal:
		return T(SVal, "nilv")
	case SSlice:
		return T(SSlice, "(mk-slice 0 0 0 0)")
	case SBV8:
		return BVLit(8, 0)
	case SBV16:
		return BVLit(16, 0)
	case SRVal:
		return T(SRVal, "rv_zero")
	}
	panic("zeroOf: " + sort)
}

func typeKey(t types.Type) string {
	s := types.TypeString(t, func(p *types.Package) string {
		if p.Path() == "github.com/JesseCoretta/go-stackage" {
			return ""
		}
		return p.Name()
	})
	return s
}

func compNameForType(t types.Type) string {
	s := typeKey(t)
	r := strings.NewReplacer("[]", "sl_", "*", "p_", ".", "_", " ", "", "{", "", "}", "", "(", "", ")", "", ",", "_", "[", "a", "]", "_")
	return r.Replace(s)
}

// heap component names
func fieldComp(st *types.Named, field string) string {
	return "F_" + st.Obj().Name() + "_" + field
}
func cellComp(t types.Type) string { return "Cell_" + compNameForType(t) }
func memComp(elemSort string) string {
	switch elemSort {
	case SVal:
		return "Mem_Val"
	case SStr:
		return "Mem_Str"
	case SInt:
		return "Mem_Int"
	case SBool:
		return "Mem_Bool"
	case SSlice:
		return "Mem_Slice"
	case SBV8:
		return "Mem_BV8"
	case SBV16:
		return "Mem_BV16"
	case SRVal:
		return "Mem_RVal"
	}
	panic("memComp " + elemSort)
}

// component sort lookup by naming convention
func compSort(name string, known map[string]string) string {
	if s, ok := known[name]; ok {
		return s
	}
	panic("unknown heap component " + name)
}

// ---------------------------------------------------------------------
// Boxed values (interfaces)

type boxInfo struct {
	Ctor    string // constructor name
	Acc     string // accessor name
	Payload string // payload sort ("" = none)
}

// fixed table of concrete types with first-class constructors in Val.
var boxTable = map[string]boxInfo{
	"int":                {"v_int", "int_of", SInt},
	"string":             {"v_str", "str_of", SStr},
	"bool":               {"v_bool", "bool_of", SBool},
	"int32":              {"v_int32", "int32_of", SInt},
	"Stack":              {"v_Stack", "stack_of", SInt},
	"Condition":          {"v_Cond", "cond_of", SInt},
	"*nodeConfig":        {"v_cfgp", "cfgp_of", SInt},
	"ComparisonOperator": {"v_cop", "cop_of", SBV8},
	"LogLevel":           {"v_LogLevel", "loglevel_of", SBV16},
	"[]any":              {"v_anys", "anys_of", SSlice},
	"[]interface{}":      {"v_anys", "anys_of", SSlice},
	"[]string":           {"v_strs", "strs_of", SSlice},
	"*log.Logger":        {"v_logger", "logger_of", SInt},
	"*stack":             {"v_stackp", "stackp_of", SInt},
	"*condition":         {"v_condp", "condp_of", SInt},
	"*Stack":             {"v_pStack", "pstack_of", SInt},
	"*Condition":         {"v_pCond", "pcond_of", SInt},
	"reflect.Value":      {"v_rval", "rval_of", SRVal},
}

const valDatatype = `(declare-sort RVal 0)
(declare-const rv_zero RVal)
(declare-datatypes ((Slice 0)) (((mk-slice (s-arr Int) (s-off Int) (s-len Int) (s-cap Int)))))
(declare-datatypes ((Val 0)) (((nilv)
  (v_int (int_of Int)) (v_str (str_of String)) (v_bool (bool_of Bool)) (v_int32 (int32_of Int))
  (v_Stack (stack_of Int)) (v_Cond (cond_of Int)) (v_cfgp (cfgp_of Int))
  (v_cop (cop_of (_ BitVec 8))) (v_LogLevel (loglevel_of (_ BitVec 16)))
  (v_anys (anys_of Slice)) (v_strs (strs_of Slice))
  (v_logger (logger_of Int)) (v_stackp (stackp_of Int)) (v_condp (condp_of Int))
  (v_pStack (pstack_of Int)) (v_pCond (pcond_of Int))
  (v_rval (rval_of RVal))
  (v_err (err_of Int))
  (v_other (o_ty Int) (o_id Int)))))
`

// other-type ids: concrete Go types without a constructor get a stable id.
type otherTypes struct {
	ids map[string]int
}

func (o *otherTypes) id(t types.Type) int {
	k := typeKey(t)
	if o.ids == nil {
		o.ids = map[string]int{}
	}
	if id, ok := o.ids[k]; ok {
		return id
	}
	id := 100 + len(o.ids)
	o.ids[k] = id
	return id
}

func lookupBox(t types.Type) (boxInfo, bool) {
	k := typeKey(t)
	if k == "rune" {
		k = "int32" // universe alias
	}
	b, ok := boxTable[k]
	return b, ok
}

func isTester(ctor string, v Term) Term {
	return T(SBool, fmt.Sprintf("((_ is %s) %s)", ctor, v.S))
}
