package main

// Recursive specification functions are never handed to the solvers as
// define-fun-rec (they diverge on them). The prelude text keeps the readable
// define-fun-rec form; the engine sends a declare-fun instead and adds the
// defining equation only for ground applications that occur in compiled
// specification formulas (fuel-bounded, deterministic).

import (
	"fmt"
	"strings"
)

type recDef struct {
	Name   string
	Params [][2]string
	Ret    string
	Body   *sx
}

// splitRecDefs rewrites define-fun-rec into declare-fun and returns the definitions.
func splitRecDefs(prelude string) (string, map[string]*recDef) {
	defs := map[string]*recDef{}
	var out strings.Builder
	// work on top-level forms, preserving text of the others
	depth := 0
	start := 0
	inComment := false
	inStr := false
	for i := 0; i < len(prelude); i++ {
		c := prelude[i]
		if inComment {
			if c == '\n' {
				inComment = false
			}
			continue
		}
		if inStr {
			if c == '"' {
				inStr = false
			}
			continue
		}
		switch c {
		case ';':
			inComment = true
		case '"':
			inStr = true
		case '(':
			if depth == 0 {
				out.WriteString(prelude[start:i])
				start = i
			}
			depth++
		case ')':
			depth--
			if depth == 0 {
				form := prelude[start : i+1]
				start = i + 1
				if strings.HasPrefix(form, "(define-fun-rec") {
					s := parseSexprs(form)[0]
					d := &recDef{Name: s.Kids[1].Atom, Ret: s.Kids[3].String(), Body: s.Kids[4]}
					var sorts []string
					for _, p := range s.Kids[2].Kids {
						d.Params = append(d.Params, [2]string{p.Kids[0].Atom, p.Kids[1].String()})
						sorts = append(sorts, p.Kids[1].String())
					}
					defs[d.Name] = d
					fmt.Fprintf(&out, "(declare-fun %s (%s) %s) ; recursive spec function, unfolded on ground terms by the engine", d.Name, strings.Join(sorts, " "), d.Ret)
				} else {
					out.WriteString(form)
				}
			}
		}
	}
	out.WriteString(prelude[start:])
	return out.String(), defs
}

func substSx(s *sx, m map[string]*sx) *sx {
	if s.IsAtom {
		if r, ok := m[s.Atom]; ok {
			return r
		}
		return s
	}
	n := &sx{}
	for _, k := range s.Kids {
		n.Kids = append(n.Kids, substSx(k, m))
	}
	return n
}

// groundRecApps collects applications of recursive functions without bound variables.
func groundRecApps(s *sx, defs map[string]*recDef, bound map[string]bool, out *[]*sx) {
	if s == nil || s.IsAtom {
		return
	}
	if len(s.Kids) > 0 && s.Kids[0].IsAtom {
		head := s.Kids[0].Atom
		if head == "forall" || head == "exists" {
			nb := map[string]bool{}
			for k := range bound {
				nb[k] = true
			}
			for _, b := range s.Kids[1].Kids {
				nb[b.Kids[0].Atom] = true
			}
			for _, k := range s.Kids[2:] {
				groundRecApps(k, defs, nb, out)
			}
			return
		}
		if head == "let" {
			nb := map[string]bool{}
			for k := range bound {
				nb[k] = true
			}
			for _, b := range s.Kids[1].Kids {
				groundRecApps(b.Kids[1], defs, bound, out)
				nb[b.Kids[0].Atom] = true
			}
			groundRecApps(s.Kids[2], defs, nb, out)
			return
		}
		if _, ok := defs[head]; ok {
			if !mentionsBound(s, bound) {
				*out = append(*out, s)
			}
		}
	}
	for _, k := range s.Kids {
		groundRecApps(k, defs, bound, out)
	}
}

func mentionsBound(s *sx, bound map[string]bool) bool {
	if s.IsAtom {
		return bound[s.Atom]
	}
	for _, k := range s.Kids {
		if mentionsBound(k, bound) {
			return true
		}
	}
	return false
}

// autoUnfold adds defining equations for ground recursive applications in text.
func (x *Exec) autoUnfold(text string, fuel int) {
	if len(x.E.RecDefs) == 0 {
		return
	}
	hit := false
	for name := range x.E.RecDefs {
		if strings.Contains(text, "("+name+" ") {
			hit = true
		}
	}
	if !hit {
		return
	}
	forms := parseSexprs(text)
	var apps []*sx
	for _, f := range forms {
		groundRecApps(f, x.E.RecDefs, map[string]bool{}, &apps)
	}
	for _, a := range apps {
		key := a.String()
		if x.unfolded[key] {
			continue
		}
		x.unfolded[key] = true
		d := x.E.RecDefs[a.Kids[0].Atom]
		if len(a.Kids)-1 != len(d.Params) {
			continue
		}
		m := map[string]*sx{}
		for i, p := range d.Params {
			m[p[0]] = a.Kids[i+1]
		}
		body := substSx(d.Body, m).String()
		x.C.Assume(BoolLit(true), T(SBool, app("=", key, body)))
		if fuel > 1 {
			x.autoUnfold(body, fuel-1)
		}
	}
}
