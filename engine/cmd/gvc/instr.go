package main

import (
	"fmt"
	"go/constant"
	"go/token"
	"go/types"

	"golang.org/x/tools/go/ssa"
)

func constantBool(c *ssa.Const) bool     { return constant.BoolVal(c.Value) }
func constantString(c *ssa.Const) string { return constant.StringVal(c.Value) }

func (x *Exec) site(fr *Frame, ins ssa.Instruction) string {
	return fnKey(fr.fn) + "@" + x.pos(ins.Pos())
}

func isIntKind(t types.Type, k types.BasicKind) bool {
	b, ok := t.Underlying().(*types.Basic)
	return ok && b.Kind() == k
}

func (x *Exec) execInstr(fr *Frame, ins ssa.Instruction, bc Term, st State) {
	site := x.site(fr, ins)
	x.curFr, x.curPos, x.curBc = fr, ins.Pos(), bc
	switch i := ins.(type) {
	case *ssa.DebugRef:
		return
	case *ssa.Alloc:
		fr.vals[i] = x.doAlloc(st, i.Type().(*types.Pointer).Elem(), i.Comment, x.forceHeap[i], i)
	case *ssa.Store:
		p := fr.value(i.Addr)
		x.nilCheck(fr, p, i.Pos(), bc, "store")
		x.store(st, p, fr.value(i.Val), i.Val.Type(), site)
	case *ssa.UnOp:
		fr.vals[i] = x.doUnOp(fr, i, bc, st, site)
	case *ssa.BinOp:
		fr.vals[i] = x.doBinOp(fr, i, bc, st, site)
	case *ssa.Extract:
		t := fr.value(i.Tuple)
		if t.Kind == VStruct && i.Index < len(t.Fields) {
			fr.vals[i] = t.Fields[i.Index]
		} else {
			fr.vals[i] = x.freshValue(i.Type(), "extract")
			x.havoc(site + ": extract from non-tuple")
		}
	case *ssa.Phi:
		panic("phi in block body")
	case *ssa.FieldAddr:
		p := fr.value(i.X)
		x.nilCheck(fr, p, i.Pos(), bc, "field")
		pt := i.X.Type().Underlying().(*types.Pointer).Elem()
		named, sty, ok := x.structOf(pt)
		if ok && p.Kind == VAddr && p.A.Kind == ALocal {
			f := sty.Field(i.Field)
			if _, _, nested := x.structOf(f.Type()); nested {
				fr.vals[i] = poison("nested struct field address", i.Type())
				return
			}
			fr.vals[i] = Value{Kind: VAddr, Typ: i.Type(), A: &Addr{Kind: ALocal, Comp: p.A.Comp + "." + f.Name(), Typ: f.Type(), Origin: p.A.Origin}}
			return
		}
		if !ok || p.Kind != VTerm {
			fr.vals[i] = poison("fieldaddr on unsupported base", i.Type())
			return
		}
		fa := x.fieldAddr(p.T, named, sty, i.Field)
		if _, _, nested := x.structOf(fa.Typ); nested {
			fr.vals[i] = poison("nested struct field address", i.Type())
			return
		}
		fr.vals[i] = Value{Kind: VAddr, A: fa, Typ: i.Type()}
	case *ssa.Field:
		s := fr.value(i.X)
		if s.Kind == VStruct && i.Field < len(s.Fields) {
			fr.vals[i] = s.Fields[i.Field]
		} else {
			fr.vals[i] = x.freshValue(i.Type(), "field")
			x.havoc(site + ": field of non-struct value")
		}
	case *ssa.IndexAddr:
		fr.vals[i] = x.doIndexAddr(fr, i, bc, st, site)
	case *ssa.Index:
		if b, ok := i.X.Type().Underlying().(*types.Basic); ok && b.Info()&types.IsString != 0 {
			s := x.term(fr.value(i.X), i.X.Type(), site)
			idx := x.term(fr.value(i.Index), i.Index.Type(), site)
			x.safety(fr, "index", "string index in range", i.Pos(), bc,
				T(SBool, fmt.Sprintf("(and (<= 0 %s) (< %s (str.len %s)))", idx.S, idx.S, s.S)))
			c := x.C.Def("byte", T(SInt, app("str.to_code", app("str.at", s.S, idx.S))))
			x.C.Assume(bc, T(SBool, fmt.Sprintf("(and (<= 0 %s) (<= %s 255))", c.S, c.S)))
			fr.vals[i] = VT(c, i.Type())
			return
		}
		fr.vals[i] = x.freshValue(i.Type(), "index")
		x.havoc(site + ": Index on array value")
	case *ssa.Lookup:
		fr.vals[i] = x.doLookup(fr, i, bc, st, site)
	case *ssa.Slice:
		fr.vals[i] = x.doSlice(fr, i, bc, st, site)
	case *ssa.MakeSlice:
		fr.vals[i] = x.doMakeSlice(fr, i, bc, st, site)
	case *ssa.MakeMap:
		r := x.freshRef(st, "map")
		// empty map
		ml := x.comp(st, "Map_len")
		x.setComp(st, "Map_len", Store(ml, r, IntLit(0)))
		kt := i.Type().Underlying().(*types.Map)
		base := mapCompBase(sortOfOrInt(kt.Key()), sortOfOrInt(kt.Elem()))
		if _, ok := x.E.CompSorts[base+"_has"]; ok {
			has := x.comp(st, base+"_has")
			ks := sortOfOrInt(kt.Key())
			x.setComp(st, base+"_has", Store(has, r, T("(Array "+ks+" Bool)", "((as const (Array "+ks+" Bool)) false)")))
		} else {
			x.havoc(site + ": map type without component")
		}
		fr.vals[i] = VT(r, i.Type())
	case *ssa.MapUpdate:
		x.doMapUpdate(fr, i, bc, st, site)
	case *ssa.MakeInterface:
		fr.vals[i] = x.doMakeInterface(fr.value(i.X), i.X.Type(), i.Type(), st, site)
	case *ssa.ChangeInterface:
		fr.vals[i] = retype(fr.value(i.X), i.Type())
	case *ssa.ChangeType:
		fr.vals[i] = retype(fr.value(i.X), i.Type())
	case *ssa.Convert:
		fr.vals[i] = x.doConvert(fr, i, st, site)
	case *ssa.TypeAssert:
		fr.vals[i] = x.doTypeAssert(fr, i, bc, st, site)
	case *ssa.MakeClosure:
		fn := i.Fn.(*ssa.Function)
		v := Value{Kind: VFunc, Fn: fn, Typ: i.Type()}
		for _, b := range i.Bindings {
			v.Binds = append(v.Binds, fr.value(b))
		}
		fr.vals[i] = v
	case *ssa.Call:
		res := x.doCall(fr, i.Common(), i.Pos(), bc, st, site)
		fr.vals[i] = res
	case *ssa.Defer:
		cc := i.Common()
		d := &deferRec{cond: bc, call: cc}
		if !cc.IsInvoke() {
			d.fnv = fr.value(cc.Value)
		} else {
			d.fnv = fr.value(cc.Value)
		}
		for _, a := range cc.Args {
			d.args = append(d.args, fr.value(a))
		}
		fr.defers = append(fr.defers, d)
	case *ssa.RunDefers:
		for k := len(fr.defers) - 1; k >= 0; k-- {
			d := fr.defers[k]
			g := And(bc, d.cond)
			if g.S == "false" {
				continue
			}
			// conditional execution: run on a copy, then merge
			st2 := st.clone()
			x.doCallValues(fr, d.call, d.fnv, d.args, i.Pos(), g, st2, site+"(deferred)")
			m := x.mergeStates(d.cond, st2, st)
			for k2 := range st {
				delete(st, k2)
			}
			for k2, v := range m {
				st[k2] = v
			}
		}
	case *ssa.Range:
		fr.vals[i] = poison("range iterator", i.Type())
	case *ssa.Next:
		x.havoc(site + ": map/string range (order and content havoced)")
		fr.vals[i] = x.freshValue(i.Type(), "next")
	case *ssa.Go, *ssa.Send, *ssa.Select:
		x.havocAll(st, site+": concurrency instruction")
	default:
		if v, ok := ins.(ssa.Value); ok {
			fr.vals[v] = x.freshValue(v.Type(), "unk")
		}
		x.havoc(fmt.Sprintf("%s: unsupported instruction %T", site, ins))
	}
}

func retype(v Value, t types.Type) Value {
	v.Typ = t
	return v
}

func (x *Exec) nilCheck(fr *Frame, p Value, pos token.Pos, bc Term, what string) {
	if p.Kind != VTerm {
		return
	}
	if x.nonnil[p.T.S] {
		return
	}
	x.safety(fr, "nil-"+what, "pointer is not nil", pos, bc, T(SBool, app("not", app("=", p.T.S, "0"))))
}

func (x *Exec) doAlloc(st State, el types.Type, hint string, heap bool, origin *ssa.Alloc) Value {
	ptrT := types.NewPointer(el)
	if _, isArr := el.Underlying().(*types.Array); !heap && !isArr {
		x.nlocal++
		name := fmt.Sprintf("_L%d_%s", x.nlocal, sanitize(hint))
		if _, sty, ok := x.structOf(el); ok {
			for i := 0; i < sty.NumFields(); i++ {
				f := sty.Field(i)
				if _, _, nested := x.structOf(f.Type()); nested {
					continue
				}
				x.Locals[name+"."+f.Name()] = sortOfOrInt(f.Type())
				st[name+"."+f.Name()] = zeroOf(sortOfOrInt(f.Type()))
			}
		} else {
			x.Locals[name] = sortOfOrInt(el)
			st[name] = zeroOf(sortOfOrInt(el))
		}
		return Value{Kind: VAddr, Typ: ptrT, A: &Addr{Kind: ALocal, Comp: name, Typ: el, Origin: origin}}
	}
	if arr, ok := el.Underlying().(*types.Array); ok {
		// fresh backing array, zeroed
		a := x.freshRef(st, "arr")
		es := sortOfOrInt(arr.Elem())
		mem := x.comp(st, memComp(es))
		x.noteStore(st, memComp(es), a)
		x.setComp(st, memComp(es), Store(mem, a, T(ArrSort(es), "((as const "+ArrSort(es)+") "+zeroOf(es).S+")")))
		return VT(a, ptrT)
	}
	r := x.freshRef(st, "new_"+sanitize(hint))
	if named, sty, ok := x.structOf(el); ok {
		for i := 0; i < sty.NumFields(); i++ {
			fa := x.fieldAddr(r, named, sty, i)
			if _, _, nested := x.structOf(fa.Typ); nested {
				continue
			}
			x.storeAddr(st, fa, zeroOf(sortOfOrInt(fa.Typ)))
		}
		return VT(r, ptrT)
	}
	a, _ := x.addrOfPtr(VT(r, ptrT), el)
	x.storeAddr(st, a, zeroOf(sortOfOrInt(el)))
	return VT(r, ptrT)
}

func (x *Exec) doUnOp(fr *Frame, i *ssa.UnOp, bc Term, st State, site string) Value {
	v := fr.value(i.X)
	switch i.Op {
	case token.MUL:
		x.nilCheck(fr, v, i.Pos(), bc, "load")
		return x.load(st, v, i.Type(), bc, site)
	case token.NOT:
		return VT(Not(x.term(v, i.Type(), site)), i.Type())
	case token.SUB:
		t := x.term(v, i.Type(), site)
		if t.Sort == SInt {
			return VT(T(SInt, app("wrap64", app("-", t.S))), i.Type())
		}
		return VT(T(t.Sort, app("bvneg", t.S)), i.Type())
	case token.XOR:
		t := x.term(v, i.Type(), site)
		if t.Sort == SBV8 || t.Sort == SBV16 {
			return VT(T(t.Sort, app("bvnot", t.S)), i.Type())
		}
	}
	x.havoc(site + ": unary " + i.Op.String())
	return x.freshValue(i.Type(), "unop")
}

func bvToInt(t Term) Term {
	bits := 8
	if t.Sort == SBV16 {
		bits = 16
	}
	var parts []string
	for b := 0; b < bits; b++ {
		parts = append(parts, fmt.Sprintf("(ite (= ((_ extract %d %d) %s) #b1) %d 0)", b, b, t.S, 1<<b))
	}
	return T(SInt, app("+", parts...))
}

func (x *Exec) doBinOp(fr *Frame, i *ssa.BinOp, bc Term, st State, site string) Value {
	if i.Op == token.EQL || i.Op == token.NEQ {
		vx, vy := fr.value(i.X), fr.value(i.Y)
		isNilConst := func(v ssa.Value) bool { c, ok := v.(*ssa.Const); return ok && c.Value == nil }
		if vx.Kind == VAddr && isNilConst(i.Y) || vy.Kind == VAddr && isNilConst(i.X) {
			// the address of a variable is never nil
			return VT(BoolLit(i.Op == token.NEQ), i.Type())
		}
	}
	xt := i.X.Type()
	a := x.term(fr.value(i.X), xt, site)
	b := x.term(fr.value(i.Y), i.Y.Type(), site)
	rt := i.Type()
	switch i.Op {
	case token.EQL, token.NEQ:
		if a.Sort != b.Sort {
			x.havoc(site + ": comparison of different sorts")
			return x.freshValue(rt, "cmp")
		}
		var r Term
		if a.Sort == SSlice {
			// only comparison with nil is legal
			other := a
			if a.S == zeroOf(SSlice).S {
				other = b
			}
			r = T(SBool, app("=", app("s-arr", other.S), "0"))
		} else {
			r = Eq(a, b)
		}
		if i.Op == token.NEQ {
			r = Not(r)
		}
		return VT(r, rt)
	case token.LSS, token.LEQ, token.GTR, token.GEQ:
		op := map[token.Token]string{token.LSS: "<", token.LEQ: "<=", token.GTR: ">", token.GEQ: ">="}[i.Op]
		switch a.Sort {
		case SInt:
			return VT(T(SBool, app(op, a.S, b.S)), rt)
		case SStr:
			sop := map[string]string{"<": "str.<", "<=": "str.<="}[op]
			if sop != "" {
				return VT(T(SBool, app(sop, a.S, b.S)), rt)
			}
			sop = map[string]string{">": "str.<", ">=": "str.<="}[op]
			return VT(T(SBool, app(sop, b.S, a.S)), rt)
		case SBV8, SBV16:
			bop := map[string]string{"<": "bvult", "<=": "bvule", ">": "bvugt", ">=": "bvuge"}[op]
			return VT(T(SBool, app(bop, a.S, b.S)), rt)
		}
	case token.ADD:
		if a.Sort == SStr {
			return VT(strCat(a, b), rt)
		}
		if a.Sort == SInt && (isIntKind(rt, types.Int) || isIntKind(rt, types.Int64)) {
			return VT(T(SInt, app("wrap64", app("+", a.S, b.S))), rt)
		}
		if a.Sort == SBV8 || a.Sort == SBV16 {
			return VT(T(a.Sort, app("bvadd", a.S, b.S)), rt)
		}
	case token.SUB:
		if a.Sort == SInt && (isIntKind(rt, types.Int) || isIntKind(rt, types.Int64)) {
			return VT(T(SInt, app("wrap64", app("-", a.S, b.S))), rt)
		}
		if a.Sort == SBV8 || a.Sort == SBV16 {
			return VT(T(a.Sort, app("bvsub", a.S, b.S)), rt)
		}
	case token.MUL:
		if a.Sort == SInt && (isIntKind(rt, types.Int) || isIntKind(rt, types.Int64)) {
			// only multiplication by a literal stays linear
			if _, ok := i.Y.(*ssa.Const); ok {
				return VT(T(SInt, app("wrap64", app("*", a.S, b.S))), rt)
			}
			if _, ok := i.X.(*ssa.Const); ok {
				return VT(T(SInt, app("wrap64", app("*", a.S, b.S))), rt)
			}
		}
	case token.SHL:
		// uint8/uint16 << int: a negative count panics; a count >= the width gives 0 (Go spec)
		if (a.Sort == SBV8 || a.Sort == SBV16) && b.Sort == SInt {
			bits := 8
			if a.Sort == SBV16 {
				bits = 16
			}
			if _, isConst := i.Y.(*ssa.Const); !isConst {
				x.safety(fr, "shift", "shift count is not negative", i.Pos(), bc, T(SBool, app("<=", "0", b.S)))
			}
			sh := fmt.Sprintf("(ite (>= %s %d) %s (bvshl %s ((_ int2bv %d) %s)))", b.S, bits, BVLit(bits, 0).S, a.S, bits, b.S)
			return VT(x.C.Def("shl", T(a.Sort, sh)), rt)
		}
	case token.AND, token.OR, token.XOR, token.AND_NOT:
		if a.Sort == SBV8 || a.Sort == SBV16 {
			switch i.Op {
			case token.AND:
				return VT(T(a.Sort, app("bvand", a.S, b.S)), rt)
			case token.OR:
				return VT(T(a.Sort, app("bvor", a.S, b.S)), rt)
			case token.XOR:
				return VT(T(a.Sort, app("bvxor", a.S, b.S)), rt)
			default:
				return VT(T(a.Sort, app("bvand", a.S, app("bvnot", b.S))), rt)
			}
		}
		if a.Sort == SBool {
			switch i.Op {
			case token.AND:
				return VT(And(a, b), rt)
			case token.OR:
				return VT(Or(a, b), rt)
			}
		}
	}
	x.havoc(site + ": binary " + i.Op.String() + " on " + xt.String())
	v := x.freshValue(rt, "binop")
	x.assumeValueInv(st, bc, v)
	return v
}

func (x *Exec) doIndexAddr(fr *Frame, i *ssa.IndexAddr, bc Term, st State, site string) Value {
	base := fr.value(i.X)
	idx := x.term(fr.value(i.Index), i.Index.Type(), site)
	switch t := i.X.Type().Underlying().(type) {
	case *types.Slice:
		s := x.term(base, i.X.Type(), site)
		es := sortOfOrInt(t.Elem())
		x.safety(fr, "index", "slice index in range", i.Pos(), bc,
			T(SBool, fmt.Sprintf("(and (<= 0 %s) (< %s (s-len %s)))", idx.S, idx.S, s.S)))
		return Value{Kind: VAddr, Typ: i.Type(), A: &Addr{Kind: AElem, Comp: memComp(es), Elem: es,
			Ref: T(SInt, app("s-arr", s.S)), Idx: T(SInt, app("+", app("s-off", s.S), idx.S)), Typ: t.Elem()}}
	case *types.Pointer:
		arr := t.Elem().Underlying().(*types.Array)
		a := x.term(base, i.X.Type(), site)
		es := sortOfOrInt(arr.Elem())
		x.safety(fr, "index", "array index in range", i.Pos(), bc,
			T(SBool, fmt.Sprintf("(and (<= 0 %s) (< %s %d))", idx.S, idx.S, arr.Len())))
		return Value{Kind: VAddr, Typ: i.Type(), A: &Addr{Kind: AElem, Comp: memComp(es), Elem: es, Ref: a, Idx: idx, Typ: arr.Elem()}}
	}
	return poison("indexaddr", i.Type())
}

func (x *Exec) doLookup(fr *Frame, i *ssa.Lookup, bc Term, st State, site string) Value {
	xv := fr.value(i.X)
	switch t := i.X.Type().Underlying().(type) {
	case *types.Basic: // string index
		s := x.term(xv, i.X.Type(), site)
		idx := x.term(fr.value(i.Index), i.Index.Type(), site)
		x.safety(fr, "index", "string index in range", i.Pos(), bc,
			T(SBool, fmt.Sprintf("(and (<= 0 %s) (< %s (str.len %s)))", idx.S, idx.S, s.S)))
		c := x.C.Def("byte", T(SInt, app("str.to_code", app("str.at", s.S, idx.S))))
		x.C.Assume(bc, T(SBool, fmt.Sprintf("(and (<= 0 %s) (<= %s 255))", c.S, c.S)))
		return VT(c, i.Type())
	case *types.Map:
		m := x.term(xv, i.X.Type(), site)
		k := x.term(fr.value(i.Index), t.Key(), site)
		ks, vs := sortOfOrInt(t.Key()), sortOfOrInt(t.Elem())
		base := mapCompBase(ks, vs)
		if _, ok := x.E.CompSorts[base+"_has"]; !ok {
			x.havoc(site + ": map lookup on unmodelled map type")
			return x.freshValue(i.Type(), "lookup")
		}
		has := T(SBool, app("select", app("select", x.comp(st, base+"_has").S, m.S), k.S))
		// a nil map has no keys
		has = And(T(SBool, app("not", app("=", m.S, "0"))), has)
		val := T(vs, app("select", app("select", x.comp(st, base+"_val").S, m.S), k.S))
		val = Ite(has, val, zeroOf(vs))
		if i.CommaOk {
			return Value{Kind: VStruct, Typ: i.Type(), Fields: []Value{VT(val, t.Elem()), VT(has, types.Typ[types.Bool])}}
		}
		return VT(val, t.Elem())
	}
	x.havoc(site + ": lookup")
	return x.freshValue(i.Type(), "lookup")
}

func (x *Exec) doMapUpdate(fr *Frame, i *ssa.MapUpdate, bc Term, st State, site string) {
	t := i.Map.Type().Underlying().(*types.Map)
	m := x.term(fr.value(i.Map), i.Map.Type(), site)
	x.safety(fr, "nil-map", "assignment to entry in nil map", i.Pos(), bc, T(SBool, app("not", app("=", m.S, "0"))))
	ks, vs := sortOfOrInt(t.Key()), sortOfOrInt(t.Elem())
	base := mapCompBase(ks, vs)
	if _, ok := x.E.CompSorts[base+"_has"]; !ok {
		x.havoc(site + ": map update on unmodelled map type")
		return
	}
	k := x.term(fr.value(i.Key), t.Key(), site)
	v := x.term(fr.value(i.Value), t.Elem(), site)
	has := x.comp(st, base+"_has")
	val := x.comp(st, base+"_val")
	ml := x.comp(st, "Map_len")
	hrow := T("(Array "+ks+" Bool)", app("select", has.S, m.S))
	vrow := T("(Array "+ks+" "+vs+")", app("select", val.S, m.S))
	was := T(SBool, app("select", hrow.S, k.S))
	x.setComp(st, "Map_len", Store(ml, m, Ite(was, T(SInt, app("select", ml.S, m.S)), T(SInt, app("+", app("select", ml.S, m.S), "1")))))
	x.setComp(st, base+"_has", Store(has, m, T(hrow.Sort, app("store", hrow.S, k.S, "true"))))
	x.setComp(st, base+"_val", Store(val, m, T(vrow.Sort, app("store", vrow.S, k.S, v.S))))
	x.epochReset(st)
}

func (x *Exec) doSlice(fr *Frame, i *ssa.Slice, bc Term, st State, site string) Value {
	base := fr.value(i.X)
	opt := func(v ssa.Value) (Term, bool) {
		if v == nil {
			return Term{}, false
		}
		return x.term(fr.value(v), v.Type(), site), true
	}
	lo, hasLo := opt(i.Low)
	hi, hasHi := opt(i.High)
	mx, hasMax := opt(i.Max)
	if !hasLo {
		lo = IntLit(0)
	}
	switch t := i.X.Type().Underlying().(type) {
	case *types.Slice:
		s := x.term(base, i.X.Type(), site)
		if !hasHi {
			hi = T(SInt, app("s-len", s.S))
		}
		capT := T(SInt, app("s-cap", s.S))
		if !hasMax {
			mx = capT
		}
		x.safety(fr, "slice", "slice bounds in range", i.Pos(), bc,
			T(SBool, fmt.Sprintf("(and (<= 0 %s) (<= %s %s) (<= %s %s) (<= %s %s))", lo.S, lo.S, hi.S, hi.S, mx.S, mx.S, capT.S)))
		if hasHi {
			x.oblige(fnKey(fr.fn), "model", "reslice-within-len@"+x.posKey(fr.fn, i.Pos()), "slice expression does not reach beyond len (model limit of append)", nil, x.pos(i.Pos()), bc,
				T(SBool, fmt.Sprintf("(<= %s (s-len %s))", hi.S, s.S)))
		}
		r := T(SSlice, fmt.Sprintf("(mk-slice (s-arr %s) (+ (s-off %s) %s) (- %s %s) (- %s %s))", s.S, s.S, lo.S, hi.S, lo.S, mx.S, lo.S))
		return VT(x.C.Def("sl", r), i.Type())
	case *types.Pointer:
		arr := t.Elem().Underlying().(*types.Array)
		a := x.term(base, i.X.Type(), site)
		n := IntLit(arr.Len())
		if !hasHi {
			hi = n
		}
		if !hasMax {
			mx = n
		}
		x.safety(fr, "slice", "slice bounds in range", i.Pos(), bc,
			T(SBool, fmt.Sprintf("(and (<= 0 %s) (<= %s %s) (<= %s %s) (<= %s %s))", lo.S, lo.S, hi.S, hi.S, mx.S, mx.S, n.S)))
		r := T(SSlice, fmt.Sprintf("(mk-slice %s %s (- %s %s) (- %s %s))", a.S, lo.S, hi.S, lo.S, mx.S, lo.S))
		rv := x.C.Def("sl", r)
		if !hasHi && i.Low == nil && i.Max == nil {
			x.knownLen[rv.S] = int(arr.Len())
		}
		return VT(rv, i.Type())
	case *types.Basic: // string
		s := x.term(base, i.X.Type(), site)
		if !hasHi {
			hi = T(SInt, app("str.len", s.S))
		}
		x.safety(fr, "slice", "string slice bounds in range", i.Pos(), bc,
			T(SBool, fmt.Sprintf("(and (<= 0 %s) (<= %s %s) (<= %s (str.len %s)))", lo.S, lo.S, hi.S, hi.S, s.S)))
		return VT(T(SStr, fmt.Sprintf("(str.substr %s %s (- %s %s))", s.S, lo.S, hi.S, lo.S)), i.Type())
	}
	x.havoc(site + ": slice of unsupported operand")
	return x.freshValue(i.Type(), "slice")
}

func (x *Exec) doMakeSlice(fr *Frame, i *ssa.MakeSlice, bc Term, st State, site string) Value {
	l := x.term(fr.value(i.Len), i.Len.Type(), site)
	c := x.term(fr.value(i.Cap), i.Cap.Type(), site)
	x.safety(fr, "makeslice", "makeslice: 0 <= len <= cap <= maxAlloc", i.Pos(), bc,
		T(SBool, fmt.Sprintf("(and (<= 0 %s) (<= %s %s) (<= %s 72057594037927936))", l.S, l.S, c.S, c.S)))
	es := sortOfOrInt(i.Type().Underlying().(*types.Slice).Elem())
	a := x.freshRef(st, "mk")
	mem := x.comp(st, memComp(es))
	x.noteStore(st, memComp(es), a)
	x.setComp(st, memComp(es), Store(mem, a, T(ArrSort(es), "((as const "+ArrSort(es)+") "+zeroOf(es).S+")")))
	return VT(x.C.Def("mksl", T(SSlice, fmt.Sprintf("(mk-slice %s 0 %s %s)", a.S, l.S, c.S))), i.Type())
}

func (x *Exec) doMakeInterface(v Value, from types.Type, to types.Type, st State, site string) Value {
	if bi, ok := lookupBox(from); ok {
		t := x.term(v, from, site)
		return VT(T(SVal, app(bi.Ctor, t.S)), to)
	}
	// error values and other concrete types: v_other(type id, payload id)
	id := x.E.Others.id(from)
	var payload Term
	switch v.Kind {
	case VTerm:
		if v.T.Sort == SInt {
			payload = v.T
		}
	}
	if payload.S == "" {
		payload = x.C.Fresh("boxid", SInt)
	}
	return VT(T(SVal, fmt.Sprintf("(v_other %d %s)", id, payload.S)), to)
}

func (x *Exec) doConvert(fr *Frame, i *ssa.Convert, st State, site string) Value {
	v := fr.value(i.X)
	from, to := i.X.Type(), i.Type()
	fs, ts := sortOfOrInt(from), sortOfOrInt(to)
	t := x.term(v, from, site)
	switch {
	case fs == ts && fs != SInt:
		return VT(t, to)
	case fs == SInt && ts == SInt:
		fb, _ := from.Underlying().(*types.Basic)
		tb, _ := to.Underlying().(*types.Basic)
		if fb != nil && tb != nil && fb.Info()&types.IsInteger != 0 && tb.Info()&types.IsInteger != 0 {
			if intRangeIncludes(tb.Kind(), fb.Kind()) {
				return VT(t, to)
			}
		}
		if _, ok := from.Underlying().(*types.Pointer); ok {
			return VT(t, to)
		}
	case (fs == SBV8 || fs == SBV16) && ts == SInt:
		return VT(x.C.Def("bv2i", bvToInt(t)), to)
	case fs == SBV8 && ts == SBV16:
		return VT(T(SBV16, app("(_ zero_extend 8)", t.S)), to)
	case fs == SInt && ts == SStr:
		// string(rune)
		r := T(SStr, app("runeStr", t.S))
		return VT(r, to)
	case fs == SInt && (ts == SBV8 || ts == SBV16):
		if c, ok := i.X.(*ssa.Const); ok && c.Value != nil {
			bits := 8
			if ts == SBV16 {
				bits = 16
			}
			return VT(BVLit(bits, c.Uint64()), to)
		}
		// non-constant int -> uint8/uint16: Go truncates to the low bits (two's complement), which is int2bv
		bits := 8
		if ts == SBV16 {
			bits = 16
		}
		return VT(x.C.Def("i2bv", T(ts, fmt.Sprintf("((_ int2bv %d) %s)", bits, t.S))), to)
	}
	x.havoc(site + ": conversion " + from.String() + " -> " + to.String())
	fv := x.freshValue(to, "conv")
	x.assumeValueInv(st, BoolLit(true), fv)
	return fv
}

func intRangeIncludes(to, from types.BasicKind) bool {
	rank := func(k types.BasicKind) (bits int, signed bool) {
		switch k {
		case types.Int8:
			return 8, true
		case types.Int16:
			return 16, true
		case types.Int32:
			return 32, true
		case types.Int, types.Int64:
			return 64, true
		case types.Uint8:
			return 8, false
		case types.Uint16:
			return 16, false
		case types.Uint32:
			return 32, false
		case types.Uint, types.Uint64, types.Uintptr:
			return 64, false
		}
		return 0, true
	}
	tb, ts := rank(to)
	fb, fsg := rank(from)
	if tb == 0 || fb == 0 {
		return false
	}
	if ts == fsg {
		return tb >= fb
	}
	if ts && !fsg {
		return tb > fb
	}
	return false
}

func (x *Exec) doTypeAssert(fr *Frame, i *ssa.TypeAssert, bc Term, st State, site string) Value {
	v := x.term(fr.value(i.X), i.X.Type(), site)
	at := i.AssertedType
	var ok Term
	var res Value
	if types.IsInterface(at) {
		ok = x.implementsTerm(v, at)
		res = VT(v, at)
	} else if bi, found := lookupBox(at); found {
		ok = isTester(bi.Ctor, v)
		payload := T(bi.Payload, app(bi.Acc, v.S))
		res = x.unboxPayload(payload, at)
	} else {
		id := x.E.Others.id(at)
		ok = T(SBool, fmt.Sprintf("(and ((_ is v_other) %s) (= (o_ty %s) %d))", v.S, v.S, id))
		res = x.freshValue(at, "assert")
		x.assumeValueInv(st, bc, res)
	}
	ok = x.C.Def("taok", ok)
	if i.CommaOk {
		// on failure the value is the zero value
		z := x.zeroValue(at)
		return Value{Kind: VStruct, Typ: i.Type(), Fields: []Value{x.mergeValues(ok, res, z), VT(ok, types.Typ[types.Bool])}}
	}
	x.safety(fr, "typeassert", "type assertion succeeds", i.Pos(), bc, ok)
	return res
}

func (x *Exec) unboxPayload(payload Term, at types.Type) Value {
	if _, sty, ok := x.structOf(at); ok && sty.NumFields() == 1 {
		return Value{Kind: VStruct, Typ: at, Fields: []Value{VT(payload, sty.Field(0).Type())}}
	}
	return VT(payload, at)
}

// implementsTerm: dynamic type of v implements interface it (v non-nil).
func (x *Exec) implementsTerm(v Term, it types.Type) Term {
	iface := it.Underlying().(*types.Interface)
	if iface.NumMethods() == 0 {
		return Not(Eq(v, T(SVal, "nilv")))
	}
	var yes []Term
	for _, key := range sortedKeys(boxTable) {
		bi := boxTable[key]
		ct := x.E.typeByKey(key)
		if ct == nil {
			continue
		}
		if types.Implements(ct, iface) {
			yes = append(yes, isTester(bi.Ctor, v))
		}
	}
	name := "impl_" + sanitize(typeKey(it))
	x.E.declareUF(name, "(Int) Bool")
	other := T(SBool, fmt.Sprintf("(and ((_ is v_other) %s) (%s (o_ty %s)))", v.S, name, v.S))
	if isNamed(it, "", "error") {
		other = Or(other, isTester("v_err", v))
	}
	return Or(append(yes, other)...)
}
