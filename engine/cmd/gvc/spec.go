package main

// Contract language: clause file parser, expression parser, compilation of
// expressions to SMT terms in a given environment.

import (
	"fmt"
	"os"
	"regexp"
	"strconv"
	"strings"
)

type Clause struct {
	Kind  string // requires, ensures, invariant
	Tags  []string
	Label string
	Expr  string
	Loop  int
	Line  int
	ast   *node
}

type ModTarget struct {
	Comp string
	Idx  string // "" = whole component; "fresh" = only refs >= alloc0
	ast  *node
}

type LetDef struct {
	Name string
	Expr string
	ast  *node
}

type Contract struct {
	Key      string
	FnKey    string // function the contract is about (Key without an @mode suffix)
	Line     int
	Requires []*Clause
	Ensures  []*Clause
	Hints    []*Clause // proof hints: facts about locals at function exit, proved first and then available to the postconditions
	Modifies []*ModTarget
	Lets     []*LetDef
	LoopInv  map[int][]*Clause
	Inline   bool
	Assumed  bool
	Trusted  string // reason text for assumed
	Ghost    []string
	HasBody  bool // set when any requires/ensures/modifies present
	Tags     []string // contract-level tags (frame obligations, untagged clauses)
	SafetyTags []string
	Schema   string // non-empty for generated schema contracts
	Mode     string // "", "lock" (C10 lock-havoc mode)
	NoFrame  bool   // schema S-wf/S-safe: no frame obligations
	FrameSkip []string // component prefixes exempt from frame obligations (ghost)
}

var clauseRe = regexp.MustCompile(`^(requires|ensures|hint|invariant|loop|modifies|let|inline|assumed|func|decreases|ghost|note|tags|safety|mode|noframe)\b(.*)$`)
var tagRe = regexp.MustCompile(`^\[([^\]]*)\]\s*(.*)$`)

func parseContractFile(path string) (map[string]*Contract, error) {
	data, err := os.ReadFile(path)
	if err != nil {
		return nil, err
	}
	out := map[string]*Contract{}
	var cur *Contract
	lines := strings.Split(string(data), "\n")
	// join continuation lines: "//@" followed by 4+ spaces continues the previous clause
	type ln struct {
		text string
		no   int
	}
	var ls []ln
	for i, l := range lines {
		l = strings.TrimRight(l, " \t\r")
		if !strings.HasPrefix(l, "//@") {
			continue
		}
		body := l[3:]
		if strings.HasPrefix(body, "     ") && len(ls) > 0 {
			ls[len(ls)-1].text += " " + strings.TrimSpace(body)
			continue
		}
		ls = append(ls, ln{strings.TrimSpace(body), i + 1})
	}
	for _, l := range ls {
		if l.text == "" {
			continue
		}
		m := clauseRe.FindStringSubmatch(l.text)
		if m == nil {
			return nil, fmt.Errorf("%s:%d: unrecognised clause %q", path, l.no, l.text)
		}
		kw, rest := m[1], strings.TrimSpace(m[2])
		if kw == "func" {
			key := rest
			// allow a trailing signature for readability: "(*stack).remove(idx int) (...)"
			if i := strings.Index(key, ")."); i >= 0 {
				if j := strings.IndexByte(key[i+2:], '('); j >= 0 {
					key = key[:i+2+j]
				}
			} else if j := strings.IndexByte(key, '('); j > 0 {
				key = key[:j]
			}
			key = strings.TrimSpace(key)
			fnKey := key
			mode := ""
			if i := strings.Index(rest, " @"); i >= 0 {
				mode = strings.TrimSpace(rest[i+2:])
				if j := strings.Index(key, " @"); j >= 0 {
					key = strings.TrimSpace(key[:j])
				}
				fnKey = key
				key = key + "@" + mode
			}
			if _, dup := out[key]; dup {
				return nil, fmt.Errorf("%s:%d: duplicate contract for %s", path, l.no, key)
			}
			cur = &Contract{Key: key, FnKey: fnKey, Mode: mode, Line: l.no, LoopInv: map[int][]*Clause{}}
			out[key] = cur
			continue
		}
		if cur == nil {
			return nil, fmt.Errorf("%s:%d: clause before any func", path, l.no)
		}
		switch kw {
		case "note", "decreases":
			// recorded only
		case "tags":
			for _, t := range strings.Split(rest, ",") {
				if t = strings.TrimSpace(t); t != "" {
					cur.Tags = append(cur.Tags, t)
				}
			}
		case "safety":
			for _, t := range strings.Split(rest, ",") {
				if t = strings.TrimSpace(t); t != "" {
					cur.SafetyTags = append(cur.SafetyTags, t)
				}
			}
		case "mode":
			cur.Mode = rest
		case "noframe":
			cur.NoFrame = true
			cur.HasBody = true
		case "inline":
			cur.Inline = true
		case "assumed":
			cur.Assumed = true
			cur.Trusted = rest
		case "ghost":
			cur.Ghost = append(cur.Ghost, rest)
		case "let":
			parts := strings.SplitN(rest, ":=", 2)
			if len(parts) != 2 {
				return nil, fmt.Errorf("%s:%d: bad let", path, l.no)
			}
			ld := &LetDef{Name: strings.TrimSpace(parts[0]), Expr: strings.TrimSpace(parts[1])}
			a, err := parseExpr(ld.Expr)
			if err != nil {
				return nil, fmt.Errorf("%s:%d: %v", path, l.no, err)
			}
			ld.ast = a
			cur.Lets = append(cur.Lets, ld)
		case "modifies":
			cur.HasBody = true
			if rest == "nothing" || rest == "" {
				continue
			}
			for _, part := range splitTop(rest, ',') {
				part = strings.TrimSpace(part)
				mt := &ModTarget{Comp: part}
				if i := strings.IndexByte(part, '['); i > 0 && strings.HasSuffix(part, "]") {
					mt.Comp = part[:i]
					mt.Idx = strings.TrimSpace(part[i+1 : len(part)-1])
					if mt.Idx != "fresh" {
						a, err := parseExpr(mt.Idx)
						if err != nil {
							return nil, fmt.Errorf("%s:%d: %v", path, l.no, err)
						}
						mt.ast = a
					}
				}
				cur.Modifies = append(cur.Modifies, mt)
			}
		case "loop":
			// loop N invariant[tags:label] expr
			f := strings.Fields(rest)
			if len(f) < 3 {
				return nil, fmt.Errorf("%s:%d: bad loop clause", path, l.no)
			}
			n, err := strconv.Atoi(f[0])
			if err != nil || !strings.HasPrefix(f[1], "invariant") {
				return nil, fmt.Errorf("%s:%d: bad loop clause", path, l.no)
			}
			rest2 := strings.TrimSpace(strings.TrimPrefix(strings.TrimSpace(rest[len(f[0]):]), "invariant"))
			cl := &Clause{Kind: "invariant", Loop: n, Line: l.no}
			if tm := tagRe.FindStringSubmatch(rest2); tm != nil {
				parseTags(cl, tm[1])
				rest2 = tm[2]
			}
			cl.Expr = rest2
			a, err := parseExpr(rest2)
			if err != nil {
				return nil, fmt.Errorf("%s:%d: %v", path, l.no, err)
			}
			cl.ast = a
			if cl.Label == "" {
				cl.Label = fmt.Sprintf("L%d", l.no)
			}
			cur.LoopInv[n] = append(cur.LoopInv[n], cl)
		case "requires", "ensures", "hint":
			if kw != "hint" {
				cur.HasBody = true
			}
			cl := &Clause{Kind: kw, Line: l.no}
			if tm := tagRe.FindStringSubmatch(rest); tm != nil {
				if kw == "hint" && !strings.Contains(tm[1], ":") {
					// hint[label]: a hint carries the tags of its contract (it is assumed by the clauses after it,
					// so it must be checked wherever they are)
					cl.Label = strings.TrimSpace(tm[1])
				} else {
					parseTags(cl, tm[1])
				}
				rest = tm[2]
			}
			if kw == "hint" {
				cl.Tags = nil
			}
			cl.Expr = rest
			a, err := parseExpr(rest)
			if err != nil {
				return nil, fmt.Errorf("%s:%d: %v", path, l.no, err)
			}
			cl.ast = a
			if cl.Label == "" {
				cl.Label = fmt.Sprintf("L%d", l.no)
			}
			if kw == "requires" {
				cur.Requires = append(cur.Requires, cl)
			} else if kw == "hint" {
				cur.Hints = append(cur.Hints, cl)
			} else {
				cur.Ensures = append(cur.Ensures, cl)
			}
		}
	}
	return out, nil
}

func parseTags(cl *Clause, s string) {
	// "C01,C08:label"
	tags := s
	if i := strings.IndexByte(s, ':'); i >= 0 {
		tags = s[:i]
		cl.Label = strings.TrimSpace(s[i+1:])
	}
	for _, t := range strings.Split(tags, ",") {
		t = strings.TrimSpace(t)
		if t != "" {
			cl.Tags = append(cl.Tags, t)
		}
	}
}

func splitTop(s string, sep byte) []string {
	var out []string
	depth := 0
	last := 0
	for i := 0; i < len(s); i++ {
		switch s[i] {
		case '(', '[':
			depth++
		case ')', ']':
			depth--
		default:
			if s[i] == sep && depth == 0 {
				out = append(out, s[last:i])
				last = i + 1
			}
		}
	}
	out = append(out, s[last:])
	return out
}

// ---------------------------------------------------------------------
// expression parser

type node struct {
	Op   string // lit-int, lit-str, lit-bool, nil, id, call, index, field, unop, binop, quant, old
	Text string
	Kids []*node
	Vars [][2]string // quantifier binders (name, sort)
}

type lexer struct {
	toks []string
	pos  int
}

func lexSpec(s string) ([]string, error) {
	var toks []string
	i := 0
	for i < len(s) {
		c := s[i]
		switch {
		case c == ' ' || c == '\t':
			i++
		case c == '"' || c == '`':
			j := i + 1
			for j < len(s) && s[j] != c {
				if s[j] == '\\' && c == '"' {
					j++
				}
				j++
			}
			if j >= len(s) {
				return nil, fmt.Errorf("unterminated string in %q", s)
			}
			toks = append(toks, s[i:j+1])
			i = j + 1
		case c >= '0' && c <= '9':
			j := i
			for j < len(s) && (s[j] >= '0' && s[j] <= '9' || s[j] == 'x' || (s[j] >= 'a' && s[j] <= 'f') || (s[j] >= 'A' && s[j] <= 'F')) {
				j++
			}
			toks = append(toks, s[i:j])
			i = j
		case c == '_' || c >= 'a' && c <= 'z' || c >= 'A' && c <= 'Z':
			j := i
			for j < len(s) && (s[j] == '_' || s[j] == '\'' || s[j] >= 'a' && s[j] <= 'z' || s[j] >= 'A' && s[j] <= 'Z' || s[j] >= '0' && s[j] <= '9') {
				j++
			}
			toks = append(toks, s[i:j])
			i = j
		default:
			for _, op := range []string{"==>", "<==>", "::", "==", "!=", "<=", ">=", "&&", "||", "++", "&^"} {
				if strings.HasPrefix(s[i:], op) {
					toks = append(toks, op)
					i += len(op)
					goto next
				}
			}
			toks = append(toks, string(c))
			i++
		next:
		}
	}
	return toks, nil
}

func parseExpr(s string) (*node, error) {
	toks, err := lexSpec(s)
	if err != nil {
		return nil, err
	}
	lx := &lexer{toks: toks}
	n, err := lx.expr()
	if err != nil {
		return nil, fmt.Errorf("%v in %q", err, s)
	}
	if lx.pos != len(lx.toks) {
		return nil, fmt.Errorf("trailing tokens at %q in %q", lx.toks[lx.pos], s)
	}
	return n, nil
}

func (l *lexer) peek() string {
	if l.pos < len(l.toks) {
		return l.toks[l.pos]
	}
	return ""
}
func (l *lexer) next() string { t := l.peek(); l.pos++; return t }
func (l *lexer) expect(t string) error {
	if l.peek() != t {
		return fmt.Errorf("expected %q got %q", t, l.peek())
	}
	l.pos++
	return nil
}

func (l *lexer) expr() (*node, error) {
	if p := l.peek(); p == "forall" || p == "exists" {
		l.next()
		q := &node{Op: "quant", Text: p}
		for {
			name := l.next()
			sort := "Int"
			if l.peek() == ":" {
				l.next()
				sort = l.next()
			}
			q.Vars = append(q.Vars, [2]string{name, sort})
			if l.peek() == "," {
				l.next()
				continue
			}
			break
		}
		if err := l.expect("::"); err != nil {
			return nil, err
		}
		body, err := l.expr()
		if err != nil {
			return nil, err
		}
		q.Kids = []*node{body}
		return q, nil
	}
	return l.iff()
}

func (l *lexer) iff() (*node, error) {
	a, err := l.impl()
	if err != nil {
		return nil, err
	}
	for l.peek() == "<==>" {
		l.next()
		b, err := l.impl()
		if err != nil {
			return nil, err
		}
		a = &node{Op: "binop", Text: "==", Kids: []*node{a, b}}
	}
	return a, nil
}

func (l *lexer) impl() (*node, error) {
	a, err := l.or()
	if err != nil {
		return nil, err
	}
	if l.peek() == "==>" {
		l.next()
		var b *node
		if p := l.peek(); p == "forall" || p == "exists" {
			b, err = l.expr()
		} else {
			b, err = l.impl()
		}
		if err != nil {
			return nil, err
		}
		return &node{Op: "binop", Text: "==>", Kids: []*node{a, b}}, nil
	}
	return a, nil
}

func (l *lexer) or() (*node, error) {
	a, err := l.and()
	if err != nil {
		return nil, err
	}
	for l.peek() == "||" {
		l.next()
		b, err := l.and()
		if err != nil {
			return nil, err
		}
		a = &node{Op: "binop", Text: "||", Kids: []*node{a, b}}
	}
	return a, nil
}

func (l *lexer) and() (*node, error) {
	a, err := l.cmp()
	if err != nil {
		return nil, err
	}
	for l.peek() == "&&" {
		l.next()
		var b *node
		if p := l.peek(); p == "forall" || p == "exists" {
			b, err = l.expr()
		} else {
			b, err = l.cmp()
		}
		if err != nil {
			return nil, err
		}
		a = &node{Op: "binop", Text: "&&", Kids: []*node{a, b}}
	}
	return a, nil
}

func (l *lexer) cmp() (*node, error) {
	a, err := l.add()
	if err != nil {
		return nil, err
	}
	switch p := l.peek(); p {
	case "==", "!=", "<", "<=", ">", ">=":
		l.next()
		b, err := l.add()
		if err != nil {
			return nil, err
		}
		return &node{Op: "binop", Text: p, Kids: []*node{a, b}}, nil
	}
	return a, nil
}

func (l *lexer) add() (*node, error) {
	a, err := l.mul()
	if err != nil {
		return nil, err
	}
	for {
		switch p := l.peek(); p {
		case "+", "-", "++":
			l.next()
			b, err := l.mul()
			if err != nil {
				return nil, err
			}
			a = &node{Op: "binop", Text: p, Kids: []*node{a, b}}
		default:
			return a, nil
		}
	}
}

func (l *lexer) mul() (*node, error) {
	a, err := l.unary()
	if err != nil {
		return nil, err
	}
	for {
		switch p := l.peek(); p {
		case "*", "&", "|", "^", "&^":
			l.next()
			b, err := l.unary()
			if err != nil {
				return nil, err
			}
			a = &node{Op: "binop", Text: p, Kids: []*node{a, b}}
		default:
			return a, nil
		}
	}
}

func (l *lexer) unary() (*node, error) {
	switch l.peek() {
	case "!":
		l.next()
		a, err := l.unary()
		if err != nil {
			return nil, err
		}
		return &node{Op: "unop", Text: "!", Kids: []*node{a}}, nil
	case "-":
		l.next()
		a, err := l.unary()
		if err != nil {
			return nil, err
		}
		return &node{Op: "unop", Text: "-", Kids: []*node{a}}, nil
	}
	return l.postfix()
}

func (l *lexer) postfix() (*node, error) {
	a, err := l.primary()
	if err != nil {
		return nil, err
	}
	for {
		switch l.peek() {
		case "[":
			l.next()
			i, err := l.expr()
			if err != nil {
				return nil, err
			}
			if err := l.expect("]"); err != nil {
				return nil, err
			}
			a = &node{Op: "index", Kids: []*node{a, i}}
		case ".":
			l.next()
			f := l.next()
			a = &node{Op: "field", Text: f, Kids: []*node{a}}
		default:
			return a, nil
		}
	}
}

func (l *lexer) primary() (*node, error) {
	t := l.next()
	switch {
	case t == "":
		return nil, fmt.Errorf("unexpected end")
	case t == "(":
		e, err := l.expr()
		if err != nil {
			return nil, err
		}
		if err := l.expect(")"); err != nil {
			return nil, err
		}
		return e, nil
	case t == "true" || t == "false":
		return &node{Op: "lit-bool", Text: t}, nil
	case t == "nil":
		return &node{Op: "nil"}, nil
	case t[0] == '"' || t[0] == '`':
		var s string
		if t[0] == '`' {
			s = t[1 : len(t)-1]
		} else {
			var err error
			s, err = strconv.Unquote(t)
			if err != nil {
				return nil, err
			}
		}
		return &node{Op: "lit-str", Text: s}, nil
	case t[0] >= '0' && t[0] <= '9':
		return &node{Op: "lit-int", Text: t}, nil
	case t[0] == '_' || t[0] >= 'a' && t[0] <= 'z' || t[0] >= 'A' && t[0] <= 'Z':
		if l.peek() == "(" {
			l.next()
			n := &node{Op: "call", Text: t}
			for l.peek() != ")" {
				a, err := l.expr()
				if err != nil {
					return nil, err
				}
				n.Kids = append(n.Kids, a)
				if l.peek() == "," {
					l.next()
				} else if l.peek() != ")" {
					return nil, fmt.Errorf("expected , or ) got %q", l.peek())
				}
			}
			l.next()
			return n, nil
		}
		return &node{Op: "id", Text: t}, nil
	}
	return nil, fmt.Errorf("unexpected token %q", t)
}

// ---------------------------------------------------------------------
// prelude function signatures

type PreludeFn struct {
	Name   string
	Params [][2]string // name, sort
	Ret    string
}

func parsePreludeSigs(text string) map[string]*PreludeFn {
	out := map[string]*PreludeFn{}
	for _, s := range parseSexprs(text) {
		if s.IsAtom || len(s.Kids) < 4 {
			continue
		}
		head := s.Kids[0].Atom
		switch head {
		case "define-fun", "define-fun-rec":
			f := &PreludeFn{Name: s.Kids[1].Atom, Ret: s.Kids[3].String()}
			for _, p := range s.Kids[2].Kids {
				f.Params = append(f.Params, [2]string{p.Kids[0].Atom, p.Kids[1].String()})
			}
			out[f.Name] = f
		case "declare-fun":
			f := &PreludeFn{Name: s.Kids[1].Atom, Ret: s.Kids[3].String()}
			for i, p := range s.Kids[2].Kids {
				f.Params = append(f.Params, [2]string{fmt.Sprintf("a%d", i), p.String()})
			}
			out[f.Name] = f
		}
	}
	return out
}

// ---------------------------------------------------------------------
// compilation

type SpecVar struct {
	T    Term
	Elem string // element sort for slices ("" unknown)
}

type State map[string]Term

func (s State) clone() State {
	n := make(State, len(s))
	for k, v := range s {
		n[k] = v
	}
	return n
}

type SpecEnv struct {
	Vars  map[string]SpecVar
	Cur   State
	Old   State
	Pre   State // loop invariants: state at loop entry
	Acq   State // lock mode: state right after the lock was acquired
	Funcs map[string]*PreludeFn
	Bound map[string]string // quantifier-bound var -> sort
	CompSorts map[string]string
	Estable   map[string]bool // entry-stable spec functions: read only cells reachable from their arguments (evaluated on the entry heap when every component agrees with it below the entry allocation mark)
	EntrySt   State
	ProveOK   func(Term) bool // decides a heap-agreement side condition at VC-generation time (nil: leave it to the goal)
	Epoch     map[string]bool // epoch-stable spec functions (evaluated on the base snapshot when their arguments predate it)
	EntryAlloc Term
}

func (e *SpecEnv) withState(s State) *SpecEnv {
	n := *e
	n.Cur = s
	return &n
}

func elemOfArr(sort string) (string, bool) {
	if strings.HasPrefix(sort, "(Array Int ") && strings.HasSuffix(sort, ")") {
		return sort[len("(Array Int ") : len(sort)-1], true
	}
	return "", false
}

type specVal struct {
	T    Term
	Elem string
	Nil  bool
}

func (e *SpecEnv) compile(n *node) (Term, error) {
	v, err := e.comp(n)
	if err != nil {
		return Term{}, err
	}
	if v.Nil {
		return Term{}, fmt.Errorf("untyped nil")
	}
	return v.T, nil
}

func (e *SpecEnv) compileBool(n *node) (Term, error) {
	t, err := e.compile(n)
	if err != nil {
		return t, err
	}
	if t.Sort != SBool {
		return t, fmt.Errorf("expected Bool, got %s for %s", t.Sort, t.S)
	}
	return t, nil
}

func nilOf(sort string) (Term, error) {
	switch sort {
	case SInt:
		return IntLit(0), nil
	case SVal:
		return T(SVal, "nilv"), nil
	case SSlice:
		return zeroOf(SSlice), nil
	}
	return Term{}, fmt.Errorf("nil of sort %s", sort)
}

func (e *SpecEnv) comp(n *node) (specVal, error) {
	switch n.Op {
	case "lit-int":
		if strings.HasPrefix(n.Text, "0x") {
			v, err := strconv.ParseUint(n.Text[2:], 16, 64)
			if err != nil {
				return specVal{}, err
			}
			if len(n.Text) == 4 {
				return specVal{T: BVLit(8, v)}, nil
			}
			if len(n.Text) == 6 {
				return specVal{T: BVLit(16, v)}, nil
			}
			return specVal{T: IntLit(int64(v))}, nil
		}
		v, err := strconv.ParseInt(n.Text, 10, 64)
		if err != nil {
			return specVal{}, err
		}
		return specVal{T: IntLit(v)}, nil
	case "lit-str":
		return specVal{T: StrLit(n.Text)}, nil
	case "lit-bool":
		return specVal{T: BoolLit(n.Text == "true")}, nil
	case "nil":
		return specVal{Nil: true}, nil
	case "id":
		if s, ok := e.Bound[n.Text]; ok {
			return specVal{T: T(s, n.Text)}, nil
		}
		if v, ok := e.Vars[n.Text]; ok {
			return specVal{T: v.T, Elem: v.Elem}, nil
		}
		if t, ok := e.Cur[n.Text]; ok {
			return specVal{T: t}, nil
		}
		if f, ok := e.Funcs[n.Text]; ok && len(f.Params) == 0 {
			return specVal{T: T(f.Ret, f.Name)}, nil
		}
		return specVal{}, fmt.Errorf("unknown identifier %q", n.Text)
	case "unop":
		a, err := e.compile(n.Kids[0])
		if err != nil {
			return specVal{}, err
		}
		if n.Text == "!" {
			if a.Sort != SBool {
				return specVal{}, fmt.Errorf("! on %s", a.Sort)
			}
			return specVal{T: Not(a)}, nil
		}
		return specVal{T: T(SInt, app("-", a.S))}, nil
	case "index":
		a, err := e.comp(n.Kids[0])
		if err != nil {
			return specVal{}, err
		}
		i, err := e.compile(n.Kids[1])
		if err != nil {
			return specVal{}, err
		}
		if el, ok := elemOfArr(a.T.Sort); ok {
			return specVal{T: Select(a.T, i, el)}, nil
		}
		if a.T.Sort == SSlice {
			if a.Elem == "" {
				return specVal{}, fmt.Errorf("indexing slice of unknown element sort: %s", a.T.S)
			}
			mem, ok := e.Cur[memComp(a.Elem)]
			if !ok {
				return specVal{}, fmt.Errorf("no memory component for %s", a.Elem)
			}
			row := Select(mem, T(SInt, app("s-arr", a.T.S)), ArrSort(a.Elem))
			return specVal{T: Select(row, T(SInt, app("+", app("s-off", a.T.S), i.S)), a.Elem)}, nil
		}
		if a.T.Sort == SStr {
			return specVal{T: T(SInt, app("str.to_code", app("str.at", a.T.S, i.S)))}, nil
		}
		return specVal{}, fmt.Errorf("cannot index sort %s", a.T.Sort)
	case "field":
		if n.Kids[0].Op == "id" {
			if v, ok := e.Vars[n.Kids[0].Text+"."+n.Text]; ok {
				return specVal{T: v.T, Elem: v.Elem}, nil
			}
		}
		return specVal{}, fmt.Errorf("field access .%s not supported; use prelude accessors", n.Text)
	case "quant":
		ne := *e
		ne.Bound = map[string]string{}
		for k, v := range e.Bound {
			ne.Bound[k] = v
		}
		var bs []string
		for _, v := range n.Vars {
			ne.Bound[v[0]] = v[1]
			bs = append(bs, "("+v[0]+" "+v[1]+")")
		}
		b, err := ne.compileBool(n.Kids[0])
		if err != nil {
			return specVal{}, err
		}
		return specVal{T: T(SBool, fmt.Sprintf("(%s (%s) %s)", n.Text, strings.Join(bs, " "), b.S))}, nil
	case "binop":
		return e.binop(n)
	case "call":
		return e.call(n)
	}
	return specVal{}, fmt.Errorf("bad node %s", n.Op)
}

func (e *SpecEnv) binop(n *node) (specVal, error) {
	op := n.Text
	a, err := e.comp(n.Kids[0])
	if err != nil {
		return specVal{}, err
	}
	b, err := e.comp(n.Kids[1])
	if err != nil {
		return specVal{}, err
	}
	if op == "==" || op == "!=" {
		if a.Nil && b.Nil {
			return specVal{T: BoolLit(op == "==")}, nil
		}
		if a.Nil {
			a.T, err = nilOf(b.T.Sort)
		} else if b.Nil {
			b.T, err = nilOf(a.T.Sort)
		}
		if err != nil {
			return specVal{}, err
		}
		if a.T.Sort != b.T.Sort {
			return specVal{}, fmt.Errorf("sort mismatch in %s: %s (%s) vs %s (%s)", op, a.T.S, a.T.Sort, b.T.S, b.T.Sort)
		}
		r := Eq(a.T, b.T)
		if op == "!=" {
			r = Not(r)
		}
		return specVal{T: r}, nil
	}
	if a.Nil || b.Nil {
		return specVal{}, fmt.Errorf("nil operand of %s", op)
	}
	A, B := a.T, b.T
	need := func(s string) error {
		if A.Sort != s || B.Sort != s {
			return fmt.Errorf("operator %s expects %s, got %s and %s (%s, %s)", op, s, A.Sort, B.Sort, A.S, B.S)
		}
		return nil
	}
	switch op {
	case "==>":
		if err := need(SBool); err != nil {
			return specVal{}, err
		}
		return specVal{T: Implies(A, B)}, nil
	case "&&":
		if err := need(SBool); err != nil {
			return specVal{}, err
		}
		return specVal{T: And(A, B)}, nil
	case "||":
		if err := need(SBool); err != nil {
			return specVal{}, err
		}
		return specVal{T: Or(A, B)}, nil
	case "<", "<=", ">", ">=":
		if err := need(SInt); err != nil {
			return specVal{}, err
		}
		return specVal{T: T(SBool, app(op, A.S, B.S))}, nil
	case "+", "-", "*":
		if err := need(SInt); err != nil {
			return specVal{}, err
		}
		return specVal{T: T(SInt, app(op, A.S, B.S))}, nil
	case "++":
		if err := need(SStr); err != nil {
			return specVal{}, err
		}
		return specVal{T: strCat(A, B)}, nil
	case "&", "|", "^", "&^":
		if A.Sort != B.Sort || (A.Sort != SBV8 && A.Sort != SBV16) {
			return specVal{}, fmt.Errorf("bit operator %s on %s,%s", op, A.Sort, B.Sort)
		}
		switch op {
		case "&":
			return specVal{T: T(A.Sort, app("bvand", A.S, B.S))}, nil
		case "|":
			return specVal{T: T(A.Sort, app("bvor", A.S, B.S))}, nil
		case "^":
			return specVal{T: T(A.Sort, app("bvxor", A.S, B.S))}, nil
		default:
			return specVal{T: T(A.Sort, app("bvand", A.S, app("bvnot", B.S)))}, nil
		}
	}
	return specVal{}, fmt.Errorf("unknown operator %s", op)
}

func strCat(a, b Term) Term {
	if a.S == `""` {
		return b
	}
	if b.S == `""` {
		return a
	}
	return T(SStr, app("str.++", a.S, b.S))
}

func (e *SpecEnv) call(n *node) (specVal, error) {
	switch n.Text {
	case "old":
		if len(n.Kids) != 1 {
			return specVal{}, fmt.Errorf("old takes one argument")
		}
		return e.withState(e.Old).comp(n.Kids[0])
	case "acq":
		if len(n.Kids) != 1 {
			return specVal{}, fmt.Errorf("acq takes one argument")
		}
		if e.Acq == nil {
			return specVal{}, fmt.Errorf("acq() is only available in lock-mode contracts after the lock was taken")
		}
		return e.withState(e.Acq).comp(n.Kids[0])
	case "pre":
		if len(n.Kids) != 1 {
			return specVal{}, fmt.Errorf("pre takes one argument")
		}
		if e.Pre == nil {
			return specVal{}, fmt.Errorf("pre() is only available in loop invariants")
		}
		return e.withState(e.Pre).comp(n.Kids[0])
	case "ite":
		if len(n.Kids) != 3 {
			return specVal{}, fmt.Errorf("ite takes three arguments")
		}
		c, err := e.compileBool(n.Kids[0])
		if err != nil {
			return specVal{}, err
		}
		a, err := e.comp(n.Kids[1])
		if err != nil {
			return specVal{}, err
		}
		b, err := e.comp(n.Kids[2])
		if err != nil {
			return specVal{}, err
		}
		if a.Nil && !b.Nil {
			a.T, err = nilOf(b.T.Sort)
		} else if b.Nil && !a.Nil {
			b.T, err = nilOf(a.T.Sort)
		}
		if err != nil {
			return specVal{}, err
		}
		if a.T.Sort != b.T.Sort {
			return specVal{}, fmt.Errorf("ite branches differ: %s vs %s", a.T.Sort, b.T.Sort)
		}
		return specVal{T: Ite(c, a.T, b.T), Elem: a.Elem}, nil
	case "len", "cap", "arr", "off":
		if len(n.Kids) != 1 {
			return specVal{}, fmt.Errorf("%s takes one argument", n.Text)
		}
		a, err := e.compile(n.Kids[0])
		if err != nil {
			return specVal{}, err
		}
		if a.Sort == SStr && n.Text == "len" {
			return specVal{T: T(SInt, app("str.len", a.S))}, nil
		}
		if a.Sort != SSlice {
			return specVal{}, fmt.Errorf("%s of non-slice %s", n.Text, a.Sort)
		}
		acc := map[string]string{"len": "s-len", "cap": "s-cap", "arr": "s-arr", "off": "s-off"}[n.Text]
		return specVal{T: T(SInt, app(acc, a.S))}, nil
	case "fresh":
		a, err := e.compile(n.Kids[0])
		if err != nil {
			return specVal{}, err
		}
		return specVal{T: T(SBool, app(">=", a.S, e.Old["alloc"].S))}, nil
	case "bv16", "bv8":
		if len(n.Kids) != 1 || n.Kids[0].Op != "lit-int" {
			return specVal{}, fmt.Errorf("%s takes an integer literal", n.Text)
		}
		v, _ := strconv.ParseUint(n.Kids[0].Text, 0, 64)
		if n.Text == "bv8" {
			return specVal{T: BVLit(8, v)}, nil
		}
		return specVal{T: BVLit(16, v)}, nil
	}
	if dt, ok := datatypeFns[n.Text]; ok {
		if len(n.Kids) != len(dt.Args) {
			return specVal{}, fmt.Errorf("%s takes %d arguments", n.Text, len(dt.Args))
		}
		var as []string
		for i, k := range n.Kids {
			a, err := e.comp(k)
			if err != nil {
				return specVal{}, err
			}
			if a.Nil {
				a.T, err = nilOf(dt.Args[i])
				if err != nil {
					return specVal{}, err
				}
			}
			if a.T.Sort != dt.Args[i] {
				return specVal{}, fmt.Errorf("argument %d of %s: want %s got %s (%s)", i+1, n.Text, dt.Args[i], a.T.Sort, a.T.S)
			}
			as = append(as, a.T.S)
		}
		r := specVal{T: T(dt.Ret, app(dt.SMT, as...))}
		if dt.Ret == SSlice {
			if n.Text == "strs_of" {
				r.Elem = SStr
			} else {
				r.Elem = SVal
			}
		}
		return r, nil
	}
	f, ok := e.Funcs[n.Text]
	if !ok {
		return specVal{}, fmt.Errorf("unknown function %q", n.Text)
	}
	var args []string
	var baseArgs []string
	var conds []Term
	useBase := false
	balloc := e.EntryAlloc
	if t, ok := e.Cur[kBalloc]; ok {
		balloc = t
	}
	ki := 0
	for _, p := range f.Params {
		if comp, isHeap := e.Cur[p[0]]; isHeap {
			args = append(args, comp.S)
			if b, ok := e.Cur["@b:"+p[0]]; ok && e.Epoch[f.Name] {
				baseArgs = append(baseArgs, b.S)
				useBase = true
			} else {
				baseArgs = append(baseArgs, comp.S)
			}
			continue
		}
		if _, isComp := e.CompSorts[p[0]]; isComp {
			return specVal{}, fmt.Errorf("heap component %s not in state (needed by %s)", p[0], f.Name)
		}
		if ki >= len(n.Kids) {
			return specVal{}, fmt.Errorf("too few arguments to %s", f.Name)
		}
		a, err := e.comp(n.Kids[ki])
		ki++
		if err != nil {
			return specVal{}, err
		}
		if a.Nil {
			a.T, err = nilOf(p[1])
			if err != nil {
				return specVal{}, err
			}
		}
		if a.T.Sort != p[1] {
			return specVal{}, fmt.Errorf("argument %d of %s: want %s got %s (%s)", ki, f.Name, p[1], a.T.Sort, a.T.S)
		}
		args = append(args, a.T.S)
		baseArgs = append(baseArgs, a.T.S)
		if balloc.S != "" {
			switch a.T.Sort {
			case SSlice:
				conds = append(conds, T(SBool, app("okslice", a.T.S, balloc.S)))
			case SVal:
				conds = append(conds, T(SBool, app("okval", a.T.S, balloc.S)))
			case SInt:
				conds = append(conds, T(SBool, app("<", a.T.S, balloc.S)))
			}
		}
	}
	if ki != len(n.Kids) {
		return specVal{}, fmt.Errorf("too many arguments to %s", f.Name)
	}
	r := specVal{T: T(f.Ret, app(f.Name, args...))}
	if useBase && balloc.S != "" {
		r.T = Ite(And(conds...), T(f.Ret, app(f.Name, baseArgs...)), r.T)
	}
	if e.Estable[f.Name] && e.EntrySt != nil && e.EntryAlloc.S != "" {
		// entry-stable: f(current heap, args) == f(entry heap, args) when the arguments predate the entry
		// allocation mark and every component agrees with the entry heap below it
		al := e.EntryAlloc.S
		var eargs []string
		var oks []Term
		var argGuards []Term
		differs := false
		ki2 := 0
		for _, p := range f.Params {
			if comp, isHeap := e.Cur[p[0]]; isHeap {
				ent, has := e.EntrySt[p[0]]
				if !has || ent.S == comp.S {
					eargs = append(eargs, comp.S)
					continue
				}
				differs = true
				eargs = append(eargs, ent.S)
				if _, isArr := elemOfArr(comp.Sort); isArr {
					ok := T(SBool, fmt.Sprintf("(forall ((q Int)) (! (=> (and (<= 0 q) (< q %s)) (= (select %s q) (select %s q))) :pattern ((select %s q))))", al, comp.S, ent.S, comp.S))
					if e.ProveOK == nil || !e.ProveOK(ok) {
						oks = append(oks, ok)
					}
				} else {
					oks = append(oks, Eq(comp, ent))
				}
				continue
			}
			a := args[len(eargs)]
			eargs = append(eargs, a)
			var gd Term
			switch p[1] {
			case SSlice:
				gd = T(SBool, app("okslice", a, al))
			case SVal:
				gd = T(SBool, app("okval", a, al))
			case SInt:
				// reference parameters are named r, c or *_ref by convention
				if p[0] == "r" || p[0] == "c" || strings.HasSuffix(p[0], "_ref") {
					gd = T(SBool, app("okref", a, al))
				}
			}
			if gd.S != "" {
				argGuards = append(argGuards, gd)
			}
			ki2++
		}
		if differs {
			for _, gd := range argGuards {
				if e.ProveOK == nil || !e.ProveOK(gd) {
					oks = append(oks, gd)
				}
			}
			r.T = Ite(And(oks...), T(f.Ret, app(f.Name, eargs...)), r.T)
		}
	}
	if f.Ret == SSlice {
		// convention: slices returned by prelude functions hold Val elements
		r.Elem = SVal
	}
	return r, nil
}

type dtFn struct {
	SMT  string
	Args []string
	Ret  string
}

var datatypeFns = func() map[string]dtFn {
	m := map[string]dtFn{}
	seen := map[string]bool{}
	for _, bi := range boxTable {
		if seen[bi.Ctor] {
			continue
		}
		seen[bi.Ctor] = true
		m[bi.Ctor] = dtFn{bi.Ctor, []string{bi.Payload}, SVal}
		m[bi.Acc] = dtFn{bi.Acc, []string{SVal}, bi.Payload}
		m["is_"+bi.Ctor] = dtFn{"(_ is " + bi.Ctor + ")", []string{SVal}, SBool}
	}
	m["v_err"] = dtFn{"v_err", []string{SInt}, SVal}
	m["err_of"] = dtFn{"err_of", []string{SVal}, SInt}
	m["is_v_err"] = dtFn{"(_ is v_err)", []string{SVal}, SBool}
	m["v_other"] = dtFn{"v_other", []string{SInt, SInt}, SVal}
	m["o_ty"] = dtFn{"o_ty", []string{SVal}, SInt}
	m["o_id"] = dtFn{"o_id", []string{SVal}, SInt}
	m["is_v_other"] = dtFn{"(_ is v_other)", []string{SVal}, SBool}
	m["mk_slice"] = dtFn{"mk-slice", []string{SInt, SInt, SInt, SInt}, SSlice}
	return m
}()
