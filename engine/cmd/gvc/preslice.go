package main

// Prelude slicing for the sliced query: only the definitions, declarations and
// axioms of the prelude that the facts and the goal can reach are sent (dropping
// assumptions is sound; a missing definition is a solver error and the full
// query is tried next).

import (
	"strings"
	"sync"
)

type preForm struct {
	text   string
	kind   string // always, def, assert
	name   string
	tokens []string
}

var preCache sync.Map // prelude text -> []preForm

func parsePrelude(prelude string) []preForm {
	if v, ok := preCache.Load(prelude); ok {
		return v.([]preForm)
	}
	var forms []preForm
	depth, start := 0, 0
	inComment, inStr := false, false
	for i := 0; i < len(prelude); i++ {
		ch := prelude[i]
		if inComment {
			if ch == '\n' {
				inComment = false
			}
			continue
		}
		if inStr {
			if ch == '"' {
				inStr = false
			}
			continue
		}
		switch ch {
		case ';':
			inComment = true
		case '"':
			inStr = true
		case '(':
			if depth == 0 {
				start = i
			}
			depth++
		case ')':
			depth--
			if depth == 0 {
				text := prelude[start : i+1]
				toks := tokenize(text)
				f := preForm{text: text, kind: "always", tokens: toks}
				if len(toks) > 2 {
					switch toks[1] {
					case "define-fun", "define-fun-rec", "declare-fun", "declare-const":
						f.kind, f.name = "def", toks[2]
					case "assert":
						f.kind = "assert"
					}
				}
				forms = append(forms, f)
			}
		}
	}
	preCache.Store(prelude, forms)
	return forms
}

func slicePrelude(prelude, rest string) string {
	forms := parsePrelude(prelude)
	defined := map[string]bool{}
	for _, f := range forms {
		if f.kind == "def" {
			defined[f.name] = true
		}
	}
	need := map[string]bool{}
	for _, t := range tokenize(rest) {
		if defined[t] {
			need[t] = true
		}
	}
	include := make([]bool, len(forms))
	for changed := true; changed; {
		changed = false
		for i, f := range forms {
			if include[i] {
				continue
			}
			take := false
			switch f.kind {
			case "always":
				take = true
			case "def":
				take = need[f.name]
			case "assert":
				for _, t := range f.tokens {
					if defined[t] && need[t] {
						take = true
						break
					}
				}
			}
			if take {
				include[i] = true
				changed = true
				for _, t := range f.tokens {
					if defined[t] && !need[t] {
						need[t] = true
					}
				}
			}
		}
	}
	var b strings.Builder
	for i, f := range forms {
		if include[i] {
			b.WriteString(f.text)
			b.WriteString("\n")
		}
	}
	return b.String()
}
