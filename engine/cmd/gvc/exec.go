package main

// Symbolic execution of one SSA function body as a DAG (loops cut at headers).

import (
	"os"
	"fmt"
	"go/token"
	"go/types"
	"sort"
	"strings"

	"golang.org/x/tools/go/ssa"
)

type deferRec struct {
	cond Term
	call *ssa.CallCommon
	args []Value
	fnv  Value
}

type retPoint struct {
	cond Term
	st   State
	vals []Value
}

type Frame struct {
	x       *Exec
	fn      *ssa.Function
	vals    map[ssa.Value]Value
	bcond   map[*ssa.BasicBlock]Term
	bstate  map[*ssa.BasicBlock]State // exit state
	econd   map[[2]int]Term           // edge conditions
	defers  []*deferRec
	rets    []retPoint
	con     *Contract // loop invariants source (may be nil)
	isTop   bool
	entrySt State
	params  []Value
	loops   map[*ssa.BasicBlock]*loopInfo
	names   map[string][]ssa.Value // debug names
	lets    map[string]SpecVar
}

type autoCand struct {
	name string
	comp string
	pre  Term
	a0   Term
	phi  *ssa.Phi // integer bound candidate: phi op c
	op   string
	c    Term
}

type loopInfo struct {
	auto    []autoCand
	pre     State
	header  *ssa.BasicBlock
	ordinal int
	blocks  map[*ssa.BasicBlock]bool
	latches []*ssa.BasicBlock
}

func (x *Exec) pos(p token.Pos) string {
	if !p.IsValid() {
		return ""
	}
	ps := x.E.Prog.Fset.Position(p)
	f := ps.Filename
	if i := strings.LastIndexByte(f, '/'); i >= 0 {
		f = f[i+1:]
	}
	return fmt.Sprintf("%s:%d", f, ps.Line)
}

func (x *Exec) goalName(fn, kind, label string) string {
	base := fn + "#" + kind + "#" + label
	x.goalSeq[base]++
	if n := x.goalSeq[base]; n > 1 {
		return fmt.Sprintf("%s.%d", base, n)
	}
	return base
}

// oblige registers a proof obligation and afterwards assumes it.
func (x *Exec) oblige(fnName, kind, label, text string, tags []string, pos string, guard, body Term) {
	if Implies(guard, body).S == "true" {
		return
	}
	x.autoUnfold(body.S, 2)
	g := &Goal{Name: x.goalName(fnName, kind, label), Func: fnName, Kind: kind, Tags: tags, Text: text, Pos: pos}
	x.C.AddGoal(g, guard, body)
	x.C.AssumeSoft(guard, body)
}

func (x *Exec) safety(fr *Frame, label, text string, pos token.Pos, guard, body Term) {
	if Implies(guard, body).S == "true" {
		return
	}
	// name by source position, so that the obligation name is stable under unrelated edits
	x.oblige(fnKey(fr.fn), "safety", label+"@"+x.posKey(fr.fn, pos), text, x.safetyTags, x.pos(pos), guard, body)
}

// posKey: line offset within the function (stable when code above the function moves).
func (x *Exec) posKey(fn *ssa.Function, p token.Pos) string {
	if !p.IsValid() || !fn.Pos().IsValid() {
		return "?"
	}
	a := x.E.Prog.Fset.Position(fn.Pos()).Line
	b := x.E.Prog.Fset.Position(p).Line
	return fmt.Sprintf("+%d", b-a)
}

func analyzeLoops(fn *ssa.Function) map[*ssa.BasicBlock]*loopInfo {
	loops := map[*ssa.BasicBlock]*loopInfo{}
	for _, b := range fn.Blocks {
		for _, s := range b.Succs {
			if s.Dominates(b) {
				li := loops[s]
				if li == nil {
					li = &loopInfo{header: s, blocks: map[*ssa.BasicBlock]bool{s: true}}
					loops[s] = li
				}
				li.latches = append(li.latches, b)
				// natural loop: all blocks that reach b without passing through s
				work := []*ssa.BasicBlock{b}
				for len(work) > 0 {
					n := work[len(work)-1]
					work = work[:len(work)-1]
					if li.blocks[n] {
						continue
					}
					li.blocks[n] = true
					work = append(work, n.Preds...)
				}
			}
		}
	}
	// ordinals in source order of header position (fallback: block index)
	var hs []*ssa.BasicBlock
	for h := range loops {
		hs = append(hs, h)
	}
	sort.Slice(hs, func(i, j int) bool { return hs[i].Index < hs[j].Index })
	// order by first instruction position when available
	posOf := func(b *ssa.BasicBlock) token.Pos {
		for _, bb := range fn.Blocks {
			if !loops[b].blocks[bb] {
				continue
			}
			for _, ins := range bb.Instrs {
				if ins.Pos().IsValid() {
					return ins.Pos()
				}
			}
		}
		return token.NoPos
	}
	sort.SliceStable(hs, func(i, j int) bool {
		pi, pj := posOf(hs[i]), posOf(hs[j])
		if pi.IsValid() && pj.IsValid() && pi != pj {
			return pi < pj
		}
		return hs[i].Index < hs[j].Index
	})
	for i, h := range hs {
		loops[h].ordinal = i + 1
	}
	return loops
}

// topological order of reachable blocks ignoring back edges
func topoOrder(fn *ssa.Function, loops map[*ssa.BasicBlock]*loopInfo) []*ssa.BasicBlock {
	var order []*ssa.BasicBlock
	seen := map[*ssa.BasicBlock]bool{}
	var visit func(b *ssa.BasicBlock)
	visit = func(b *ssa.BasicBlock) {
		if seen[b] {
			return
		}
		seen[b] = true
		for _, s := range b.Succs {
			if s.Dominates(b) { // back edge
				continue
			}
			visit(s)
		}
		order = append(order, b)
	}
	visit(fn.Blocks[0])
	for i, j := 0, len(order)-1; i < j; i, j = i+1, j-1 {
		order[i], order[j] = order[j], order[i]
	}
	return order
}

// compsWrittenIn computes (syntactically, transitively through callees) the
// heap components possibly written by a set of blocks.
func (x *Exec) compsWritten(fn *ssa.Function, blocks map[*ssa.BasicBlock]bool, seen map[*ssa.Function]bool, out map[string]bool) {
	for _, b := range fn.Blocks {
		if blocks != nil && !blocks[b] {
			continue
		}
		for _, ins := range b.Instrs {
			switch i := ins.(type) {
			case *ssa.Store:
				if isLocalAllocBase(i.Addr) {
					continue
				}
				x.compsOfPtr(i.Addr, out)
			case *ssa.Alloc, *ssa.MakeSlice, *ssa.MakeMap, *ssa.MakeClosure:
				if a, ok := i.(*ssa.Alloc); ok && isLocalAllocBase(a) {
					continue // non-escaping local: its own state component, not heap
				}
				out["alloc"] = true
				if a, ok := i.(*ssa.Alloc); ok {
					x.compsOfAllocType(a.Type().(*types.Pointer).Elem(), out)
				}
				if _, ok := i.(*ssa.MakeSlice); ok {
					out[memComp(sortOfOrInt(i.(*ssa.MakeSlice).Type().Underlying().(*types.Slice).Elem()))] = true
				}
				if _, ok := i.(*ssa.MakeMap); ok {
					out["*map"] = true
				}
			case *ssa.MapUpdate:
				out["*map"] = true
			case ssa.CallInstruction:
				cc := i.Common()
				if _, isDefer := ins.(*ssa.Defer); isDefer {
					// executed at rundefers; accounted there as well as here (conservative)
				}
				x.compsOfCall(cc, seen, out)
			}
		}
	}
}

func (x *Exec) compsOfAllocType(t types.Type, out map[string]bool) {
	if named, sty, ok := x.structOf(t); ok {
		for i := 0; i < sty.NumFields(); i++ {
			out[fieldComp(named, sty.Field(i).Name())] = true
		}
		return
	}
	if arr, ok := t.Underlying().(*types.Array); ok {
		out[memComp(sortOfOrInt(arr.Elem()))] = true
		return
	}
	out[cellComp(t)] = true
}

func (x *Exec) compsOfPtr(p ssa.Value, out map[string]bool) {
	switch a := p.(type) {
	case *ssa.FieldAddr:
		pt := a.X.Type().Underlying().(*types.Pointer).Elem()
		if named, sty, ok := x.structOf(pt); ok {
			out[fieldComp(named, sty.Field(a.Field).Name())] = true
			return
		}
	case *ssa.IndexAddr:
		switch t := a.X.Type().Underlying().(type) {
		case *types.Slice:
			out[memComp(sortOfOrInt(t.Elem()))] = true
			return
		case *types.Pointer:
			if arr, ok := t.Elem().Underlying().(*types.Array); ok {
				out[memComp(sortOfOrInt(arr.Elem()))] = true
				return
			}
		}
	case *ssa.Global:
		out["G_"+a.Name()] = true
		return
	}
	el := p.Type().Underlying().(*types.Pointer).Elem()
	x.compsOfAllocType(el, out)
}

func (x *Exec) compsOfCall(cc *ssa.CallCommon, seen map[*ssa.Function]bool, out map[string]bool) {
	if b, ok := cc.Value.(*ssa.Builtin); ok {
		switch b.Name() {
		case "append":
			out["alloc"] = true
			if sl, ok := cc.Args[0].Type().Underlying().(*types.Slice); ok {
				out[memComp(sortOfOrInt(sl.Elem()))] = true
			}
		case "delete":
			out["*map"] = true
		case "copy":
			if sl, ok := cc.Args[0].Type().Underlying().(*types.Slice); ok {
				out[memComp(sortOfOrInt(sl.Elem()))] = true
			}
		}
		return
	}
	callee := cc.StaticCallee()
	if callee == nil {
		// package-level function variables bound to library functions (misc.go)
		if u, ok := cc.Value.(*ssa.UnOp); ok {
			if g, ok := u.X.(*ssa.Global); ok {
				if _, isFV := funcVars["G_"+g.Name()]; isFV {
					return
				}
			}
		}
		if cc.IsInvoke() {
			// interface dispatch to package methods
			for _, fn := range x.invokeTargets(cc) {
				x.compsOfFn(fn, seen, out)
			}
			return
		}
		// dynamic closure call: ghost call log only (A-closure)
		out["G_calls_len"] = true
		out["G_calls_fn"] = true
		out["G_calls_arg"] = true
		out["alloc"] = true
		// a statically known bound method may hide behind a func value; handled conservatively:
		return
	}
	x.compsOfFn(callee, seen, out)
}

func (x *Exec) compsOfFn(callee *ssa.Function, seen map[*ssa.Function]bool, out map[string]bool) {
	if seen[callee] {
		return
	}
	seen[callee] = true
	key := fnKey(callee)
	con := x.E.Contracts[key]
	if x.TopCon != nil && x.TopCon.Mode == "spec" {
		if c2 := x.E.Contracts[key+"@spec"]; c2 != nil && c2.HasBody && !c2.Inline {
			con = c2
		}
	}
	if con != nil && con.HasBody && !con.Inline {
		for _, m := range con.Modifies {
			if m.Comp == "fresh" {
				if callee.Blocks != nil {
					x.compsWritten(callee, nil, seen, out)
				}
				continue
			}
			x.expandModComp(m.Comp, out)
		}
		out["alloc"] = true
		return
	}
	if callee.Blocks == nil || (callee.Pkg != nil && callee.Pkg != x.E.Pkg) {
		// library function: its effect on package state is its assumed contract (ext.go)
		x.extWrites(callee, out)
		return
	}
	x.compsWritten(callee, nil, seen, out)
}

func (x *Exec) expandModComp(c string, out map[string]bool) {
	if strings.HasSuffix(c, "_*") {
		pre := strings.TrimSuffix(c, "*")
		for _, name := range x.E.compNames() {
			if strings.HasPrefix(name, pre) {
				out[name] = true
			}
		}
		return
	}
	out[c] = true
}

// ---------------------------------------------------------------------

func (x *Exec) newFrame(fn *ssa.Function, con *Contract) *Frame {
	fr := &Frame{x: x, fn: fn, vals: map[ssa.Value]Value{}, bcond: map[*ssa.BasicBlock]Term{},
		bstate: map[*ssa.BasicBlock]State{}, econd: map[[2]int]Term{}, con: con}
	fr.loops = analyzeLoops(fn)
	fr.names = map[string][]ssa.Value{}
	for _, b := range fn.Blocks {
		for _, ins := range b.Instrs {
			if d, ok := ins.(*ssa.DebugRef); ok {
				if obj := d.Object(); obj != nil {
					fr.names[obj.Name()] = append(fr.names[obj.Name()], d.X)
				}
			}
		}
	}
	return fr
}

// execBody runs the function body from (cond, st) with the given arguments.
// It returns the merged exit condition, exit state and results.
func (x *Exec) execBody(fr *Frame, cond Term, st State, args []Value) (Term, State, []Value) {
	fn := fr.fn
	fr.entrySt = st.clone()
	fr.params = args
	for i, p := range fn.Params {
		fr.vals[p] = args[i]
	}
	if fr.con != nil && len(fr.con.Lets) > 0 && len(fr.con.LoopInv) > 0 {
		vars := map[string]SpecVar{}
		for i, p := range fn.Params {
			if sv, ok := x.specVarOf(args[i], "let"); ok {
				vars[p.Name()] = sv
			}
		}
		env := x.specEnv(fr.entrySt, fr.entrySt, vars)
		x.bindLets(fr.con, env, fnKey(fn))
		fr.lets = map[string]SpecVar{}
		for _, l := range fr.con.Lets {
			fr.lets[l.Name] = env.Vars[l.Name]
		}
	}
	order := topoOrder(fn, fr.loops)
	for _, b := range order {
		if b == fn.Recover {
			continue
		}
		var bc Term
		var bst State
		if b.Index == 0 {
			bc, bst = cond, st.clone()
		} else {
			bc = BoolLit(false)
			first := true
			for _, p := range b.Preds {
				if b.Dominates(p) {
					continue // back edge
				}
				ec, ok := fr.econd[[2]int{p.Index, b.Index}]
				if !ok {
					continue // pred unreachable / not executed
				}
				pst := fr.bstate[p]
				if first {
					bc, bst = ec, pst.clone()
					first = false
				} else {
					bst = x.mergeStates(ec, pst, bst)
					bc = Or(bc, ec)
				}
			}
			if first {
				continue // unreachable
			}
			bc = x.C.Def("bc", bc)
		}
		// phis (forward edges)
		nphi := 0
		for _, ins := range b.Instrs {
			phi, ok := ins.(*ssa.Phi)
			if !ok {
				break
			}
			nphi++
			var v Value
			first := true
			for i, p := range b.Preds {
				if b.Dominates(p) {
					continue
				}
				ec, ok := fr.econd[[2]int{p.Index, b.Index}]
				if !ok {
					continue
				}
				iv := fr.value(phi.Edges[i])
				if first {
					v = iv
					first = false
				} else {
					v = x.mergeValues(ec, iv, v)
				}
			}
			fr.vals[phi] = v
		}
		if li := fr.loops[b]; li != nil {
			bst = x.cutLoop(fr, li, bc, bst)
		}
		fr.bcond[b] = bc
		x.execBlock(fr, b, bc, bst, nphi)
	}
	// merge returns
	if len(fr.rets) == 0 {
		return BoolLit(false), st, nil
	}
	r := fr.rets[0]
	ec, est, ev := r.cond, r.st, r.vals
	for _, r2 := range fr.rets[1:] {
		est = x.mergeStates(r2.cond, r2.st, est)
		nv := make([]Value, len(ev))
		for i := range ev {
			nv[i] = x.mergeValues(r2.cond, r2.vals[i], ev[i])
		}
		ev = nv
		ec = Or(ec, r2.cond)
	}
	return ec, est, ev
}

// specEnvFor builds the environment in which a contract's expressions are compiled.
func (x *Exec) specEnv(cur, old State, vars map[string]SpecVar) *SpecEnv {
	// make sure all components exist in both states (lazily created entry symbols)
	for _, name := range x.E.compNames() {
		x.comp(cur, name)
		x.comp(old, name)
	}
	env := &SpecEnv{Vars: vars, Cur: cur, Old: old, Funcs: x.E.Funcs, CompSorts: x.E.CompSorts, Epoch: x.E.Epoch, Estable: x.E.Estable, EntrySt: x.Entry, EntryAlloc: x.comp(x.Entry, "alloc")}
	env.ProveOK = x.proveNow
	if x.acqState != nil {
		env.Acq = x.fill(x.acqState)
	} else if x.LockHavoc {
		env.Acq = old // the lock was never taken on this path: acquisition state = entry state
	}
	return env
}

func (x *Exec) fill(st State) State {
	for _, name := range x.E.compNames() {
		x.comp(st, name)
	}
	return st
}

func elemSortOfType(t types.Type) string {
	if sl, ok := t.Underlying().(*types.Slice); ok {
		return sortOfOrInt(sl.Elem())
	}
	return ""
}

func (x *Exec) specVarOf(v Value, site string) (SpecVar, bool) {
	switch v.Kind {
	case VTerm:
		return SpecVar{T: v.T, Elem: elemSortOfType(v.Typ)}, true
	case VStruct:
		if len(v.Fields) == 1 {
			return x.specVarOf(v.Fields[0], site)
		}
	case VAddr:
		if v.A.Kind == ACell {
			return SpecVar{T: v.A.Ref}, true
		}
	case VFunc:
		return SpecVar{T: x.term(v, v.Typ, site)}, true
	}
	return SpecVar{}, false
}

// exitVars resolves local (debug) names at function exit: the latest definition whose block dominates a
// return; each comes with the path condition of its defining block.
func (fr *Frame) exitVars(st State) (map[string]SpecVar, map[string]Term) {
	x := fr.x
	vars := map[string]SpecVar{}
	guards := map[string]Term{}
	var rets []*ssa.BasicBlock
	for _, b := range fr.fn.Blocks {
		if len(b.Instrs) > 0 {
			if _, ok := b.Instrs[len(b.Instrs)-1].(*ssa.Return); ok {
				rets = append(rets, b)
			}
		}
	}
	cands := map[string][]ssa.Value{}
	for name, vs := range fr.names {
		cands[name] = append(cands[name], vs...)
	}
	for _, b := range fr.fn.Blocks {
		for _, ins := range b.Instrs {
			phi, ok := ins.(*ssa.Phi)
			if !ok {
				break
			}
			if phi.Comment != "" {
				cands[phi.Comment] = append(cands[phi.Comment], phi)
			}
		}
	}
	for name, vs := range cands {
		var pick ssa.Value
		pd, pk := -1, -1
		for _, v := range vs {
			ins, ok := v.(ssa.Instruction)
			if !ok || ins.Block() == nil {
				continue
			}
			// definitions inside a loop body only describe one iteration; the header phi is the loop's exit value
			inLoop := false
			for _, li := range fr.loops {
				if li.blocks[ins.Block()] {
					if phi, isPhi := v.(*ssa.Phi); !(isPhi && phi.Block() == li.header) {
						inLoop = true
					}
				}
			}
			if inLoop {
				continue
			}
			if al, isAl := v.(*ssa.Alloc); isAl && al.Comment == name {
				pick, pd, pk = v, 1<<30, 0
				continue
			}
			d, k := ins.Block().Index, 0
			for i, i2 := range ins.Block().Instrs {
				if i2 == ins {
					k = i
				}
			}
			if d > pd || (d == pd && k > pk) {
				pick, pd, pk = v, d, k
			}
		}
		if os.Getenv("GVC_DEBUG") != "" {
			fmt.Println("exitVars", name, len(vs), pick)
		}
		if pick == nil {
			continue
		}
		var val Value
		if al, ok := pick.(*ssa.Alloc); ok {
			pv, ok2 := fr.vals[al]
			if !ok2 {
				continue
			}
			val = x.load(st, pv, al.Type().(*types.Pointer).Elem(), BoolLit(true), "hint")
		} else {
			v, ok := fr.vals[pick]
			if !ok {
				continue
			}
			val = v
		}
		if sv, ok := x.specVarOf(val, "hint"); ok {
			vars[name] = sv
			if bc, ok := fr.bcond[pick.(ssa.Instruction).Block()]; ok {
				guards[name] = bc
			}
		}
	}
	return vars, guards
}

// loopVars resolves names visible to a loop invariant.
func (fr *Frame) loopVars(li *loopInfo, st State, phiVal func(*ssa.Phi) Value) map[string]SpecVar {
	x := fr.x
	vars := map[string]SpecVar{}
	for k, v := range fr.lets {
		vars[k] = v
	}
	// parameters (name = current value, name0 = value at entry)
	for i, p := range fr.fn.Params {
		if sv, ok := x.specVarOf(fr.params[i], "inv"); ok {
			vars[p.Name()] = sv
			vars[p.Name()+"0"] = sv
		}
	}
	// debug names defined outside the loop (unique) or allocs
	for name, vs := range fr.names {
		var cands []ssa.Value
		seen := map[ssa.Value]bool{}
		for _, v := range vs {
			if seen[v] {
				continue
			}
			seen[v] = true
			cands = append(cands, v)
		}
		var pick ssa.Value
		n := 0
		rank := func(v ssa.Value) (int, int) {
			ins, ok := v.(ssa.Instruction)
			if !ok {
				return -1, 0
			}
			d := 0
			for b := ins.Block(); b != nil; b = b.Idom() {
				d++
			}
			for k, i2 := range ins.Block().Instrs {
				if i2 == ins {
					return d, k
				}
			}
			return d, 0
		}
		ambiguous := false
		for _, c := range cands {
			if ins, ok := c.(ssa.Instruction); ok {
				if li.blocks[ins.Block()] {
					if phi, isPhi := c.(*ssa.Phi); isPhi && ins.Block() == li.header {
						pick = phi
						n = 1
						ambiguous = false
						break
					}
					continue
				}
				if !ins.Block().Dominates(li.header) {
					ambiguous = true
					continue
				}
			}
			if pick == nil {
				pick = c
				n = 1
				continue
			}
			d1, k1 := rank(pick)
			d2, k2 := rank(c)
			if d2 > d1 || (d2 == d1 && k2 > k1) {
				pick = c
			}
		}
		// an address-taken local is its Alloc cell: the value first stored into it is not the variable
		for _, c := range cands {
			if al, ok := c.(*ssa.Alloc); ok && al.Comment == name && !li.blocks[al.Block()] && al.Block().Dominates(li.header) {
				pick, n, ambiguous = al, 1, false
			}
		}
		if ambiguous && pick != nil {
			// branch-local definitions are fine when a later merge (phi) dominating the loop was picked
			if phi, ok := pick.(*ssa.Phi); ok && phi.Block().Dominates(li.header) {
				ambiguous = false
			}
		}
		if n != 1 || ambiguous {
			continue
		}
		var val Value
		if phi, ok := pick.(*ssa.Phi); ok && phi.Block() == li.header {
			val = phiVal(phi)
		} else if al, ok := pick.(*ssa.Alloc); ok {
			pv, ok2 := fr.vals[al]
			if !ok2 {
				continue
			}
			val = x.load(st, pv, al.Type().(*types.Pointer).Elem(), BoolLit(true), "inv")
		} else {
			v, ok := fr.vals[pick]
			if !ok {
				continue
			}
			val = v
		}
		if sv, ok := x.specVarOf(val, "inv"); ok {
			// a reassigned parameter is shadowed by its latest dominating definition
			vars[name] = sv
		}
	}
	// header phis by comment name (takes precedence)
	for _, ins := range li.header.Instrs {
		phi, ok := ins.(*ssa.Phi)
		if !ok {
			break
		}
		if phi.Comment != "" {
			if sv, ok := x.specVarOf(phiVal(phi), "inv"); ok {
				vars[phi.Comment] = sv
			}
		}
	}
	return vars
}

func (x *Exec) cutLoop(fr *Frame, li *loopInfo, bc Term, st State) State {
	fnName := fnKey(fr.fn)
	var invs []*Clause
	if fr.con != nil {
		invs = fr.con.LoopInv[li.ordinal]
	}
	li.pre = st.clone()
	// 1. invariant on entry
	if len(invs) > 0 {
		vars := fr.loopVars(li, st, func(p *ssa.Phi) Value { return fr.vals[p] })
		x.curPC = bc
		env := x.specEnv(st, fr.entrySt, vars)
		env.Pre = x.fill(li.pre)
		for _, cl := range invs {
			t, err := env.compileBool(cl.ast)
			if err != nil {
				panic(fmt.Sprintf("contract error: %s loop %d invariant %s: %v", fnName, li.ordinal, cl.Label, err))
			}
			x.oblige(fnName, "inv-init", fmt.Sprintf("loop%d.%s", li.ordinal, cl.Label), cl.Expr, cl.Tags, x.pos(li.header.Instrs[0].Pos()), bc, t)
		}
	} else {
		x.havoc(fmt.Sprintf("%s: loop %d has no invariant (state havoced at header)", fnName, li.ordinal))
	}
	// 2. havoc
	written := map[string]bool{}
	x.compsWritten(fr.fn, li.blocks, map[*ssa.Function]bool{}, written)
	if written["*map"] {
		delete(written, "*map")
		for _, name := range x.E.compNames() {
			if strings.HasPrefix(name, "Map_") {
				written[name] = true
			}
		}
	}
	nst := st.clone()
	for _, c := range sortedKeys(written) {
		if c == "*map" {
			for _, name := range x.E.compNames() {
				sort := x.E.CompSorts[name]
				if strings.HasPrefix(name, "Map_") {
					nst[name] = x.C.Fresh(name+"_lp", sort)
				}
			}
			continue
		}
		sort, ok := x.E.CompSorts[c]
		if !ok {
			continue
		}
		if c == "alloc" {
			na := x.C.Fresh("alloc_lp", SInt)
			x.C.Assume(BoolLit(true), T(SBool, app(">=", na.S, x.comp(st, "alloc").S)))
			nst[c] = na
			continue
		}
		nst[c] = x.C.Fresh(c+"_lp", sort)
		if c == "G_calls_len" {
			// the call counter only grows
			x.C.Assume(BoolLit(true), T(SBool, app(">=", nst[c].S, x.comp(st, c).S)))
		}
	}
	// locals of this frame that the loop may write (any non-load use of their address inside the loop)
	{
		touched := map[string]bool{}
		for _, b := range fr.fn.Blocks {
			if !li.blocks[b] {
				continue
			}
			for _, ins := range b.Instrs {
				if u, ok := ins.(*ssa.UnOp); ok && u.Op == token.MUL {
					continue
				}
				if _, ok := ins.(*ssa.DebugRef); ok {
					continue
				}
				var ops []*ssa.Value
				ops = ins.Operands(ops)
				for _, op := range ops {
					if op == nil || *op == nil {
						continue
					}
					if al, ok := (*op).(*ssa.Alloc); ok {
						if v, ok := fr.vals[al]; ok && v.Kind == VAddr && v.A.Kind == ALocal {
							touched[v.A.Comp] = true
						}
					}
				}
			}
		}
		for _, name := range sortedKeys(x.Locals) {
			for base := range touched {
				if name == base || strings.HasPrefix(name, base+".") {
					nst[name] = x.C.Fresh(sanitize(name)+"_lp", x.Locals[name])
				}
			}
		}
	}
	li.auto = nil
	invText := ""
	for _, cl := range invs {
		invText += " " + cl.Expr
	}
	{
		a0 := x.comp(fr.entrySt, "alloc")
		for _, c := range sortedKeys(written) {
			sort, ok := x.E.CompSorts[c]
			if !ok || c == "alloc" {
				continue
			}
			if len(invs) > 0 && (strings.Contains(invText, c) || c == "Cell_stack" && strings.Contains(invText, "hdr(") || c == "Mem_Val" && (strings.Contains(invText, "slot(") || strings.Contains(invText, "cell("))) {
				continue // the user invariants speak about this component
			}
			if c == "G_held" {
				name := fmt.Sprintf("auto:%s:loop%d:G_held:same", fnName, li.ordinal)
				if !x.autoExcl[name] && !strings.Contains(invText, "G_held") {
					li.auto = append(li.auto, autoCand{name: name, comp: c, pre: x.comp(st, c), op: "same"})
					x.C.Assume(bc, Eq(nst[c], x.comp(st, c)))
				}
				continue
			}
			if _, isArr := elemOfArr(sort); !isArr || strings.HasPrefix(c, "G_") {
				continue
			}
			// two candidates: unchanged below the allocation mark at loop entry (stronger), or at function entry
			for _, lvl := range []struct {
				tag string
				a   Term
			}{{"pre", x.comp(st, "alloc")}, {"entry", a0}} {
				name := fmt.Sprintf("auto:%s:loop%d:%s:%s", fnName, li.ordinal, c, lvl.tag)
				if x.autoExcl[name] {
					continue
				}
				li.auto = append(li.auto, autoCand{name: name, comp: c, pre: x.comp(st, c), a0: lvl.a})
				x.C.Assume(bc, T(SBool, fmt.Sprintf("(forall ((q Int)) (! (=> (and (<= 0 q) (< q %s)) (= (select %s q) (select %s q))) :pattern ((select %s q))))", lvl.a.S, nst[c].S, x.comp(st, c).S, nst[c].S)))
				break
			}
		}
	}
	for _, ins := range li.header.Instrs {
		phi, ok := ins.(*ssa.Phi)
		if !ok {
			break
		}
		fv := x.freshValue(phi.Type(), "phi_"+sanitize(phi.Comment))
		x.assumeValueInv(nst, bc, fv)
		if len(invs) == 0 && fv.Kind == VTerm && fv.T.Sort == SInt {
			// bound candidates from a constant initial value
			for i, p := range li.header.Preds {
				if li.header.Dominates(p) {
					continue
				}
				if cst, ok := phi.Edges[i].(*ssa.Const); ok && cst.Value != nil {
					cv := x.constValue(cst)
					if cv.Kind == VTerm && cv.T.Sort == SInt {
						type cand struct {
							op  string
							c   Term
							tag string
						}
						cands := []cand{{">=", cv.T, "ge" + sanitize(cv.T.S)}, {"<=", cv.T, "le" + sanitize(cv.T.S)},
							{"<=", T(SInt, "4611686018427387904"), "nooverflow"}, {">=", T(SInt, "(- 4611686018427387904)"), "nounderflow"}}
						for _, cd := range cands {
							name := fmt.Sprintf("auto:%s:loop%d:%s:%s", fnName, li.ordinal, sanitize(phi.Comment+phi.Name()), cd.tag)
							if x.autoExcl[name] {
								continue
							}
							li.auto = append(li.auto, autoCand{name: name, phi: phi, op: cd.op, c: cd.c})
							x.C.Assume(bc, T(SBool, app(cd.op, fv.T.S, cd.c.S)))
						}
					}
				}
				break
			}
		}
		fr.vals[phi] = fv
	}
	x.epochReset(nst)
	// 3. assume invariants
	if len(invs) > 0 {
		vars := fr.loopVars(li, nst, func(p *ssa.Phi) Value { return fr.vals[p] })
		x.curPC = Term{}
		env := x.specEnv(nst, fr.entrySt, vars)
		env.Pre = x.fill(li.pre)
		for _, cl := range invs {
			t, err := env.compileBool(cl.ast)
			if err != nil {
				panic(fmt.Sprintf("contract error: %s loop %d invariant %s: %v", fnName, li.ordinal, cl.Label, err))
			}
			x.autoUnfold(t.S, 2)
			x.C.AssumeSoft(bc, t)
		}
	}
	return nst
}

// checkBackEdge: at the end of a latch block, the invariant must hold for the next iteration.
func (x *Exec) checkBackEdge(fr *Frame, from *ssa.BasicBlock, li *loopInfo, ec Term, st State) {
	for _, ac := range li.auto {
		if ac.phi != nil {
			pi := -1
			for i, p := range li.header.Preds {
				if p == from {
					pi = i
				}
			}
			nv := fr.value(ac.phi.Edges[pi])
			if nv.Kind != VTerm {
				continue
			}
			body := T(SBool, app(ac.op, nv.T.S, ac.c.S))
			g := &Goal{Name: ac.name, Func: fnKey(fr.fn), Kind: "auto-inv", Text: "generated loop bound candidate"}
			if Implies(ec, body).S != "true" {
				x.C.AddGoal(g, ec, body)
			}
			continue
		}
		cur := x.comp(st, ac.comp)
		if ac.op == "same" {
			g := &Goal{Name: ac.name, Func: fnKey(fr.fn), Kind: "auto-inv", Text: "generated loop candidate: the set of held locks is the same at every iteration"}
			if body := Eq(cur, ac.pre); Implies(ec, body).S != "true" {
				x.C.AddGoal(g, ec, body)
			}
			continue
		}
		body := T(SBool, fmt.Sprintf("(forall ((q Int)) (=> (and (<= 0 q) (< q %s)) (= (select %s q) (select %s q))))", ac.a0.S, cur.S, ac.pre.S))
		g := &Goal{Name: ac.name, Func: fnKey(fr.fn), Kind: "auto-inv", Text: "generated loop frame candidate: " + ac.comp + " unchanged below the entry allocation mark"}
		if Implies(ec, body).S != "true" {
			x.C.AddGoal(g, ec, body)
		}
	}
	if fr.con == nil {
		return
	}
	invs := fr.con.LoopInv[li.ordinal]
	if len(invs) == 0 {
		return
	}
	predIdx := -1
	for i, p := range li.header.Preds {
		if p == from {
			predIdx = i
		}
	}
	vars := fr.loopVars(li, st, func(p *ssa.Phi) Value { return fr.value(p.Edges[predIdx]) })
	x.curPC = ec
	defer func() { x.curPC = Term{} }()
	env := x.specEnv(st, fr.entrySt, vars)
	env.Pre = x.fill(li.pre)
	fnName := fnKey(fr.fn)
	for _, cl := range invs {
		t, err := env.compileBool(cl.ast)
		if err != nil {
			panic(fmt.Sprintf("contract error: %s loop %d invariant %s: %v", fnName, li.ordinal, cl.Label, err))
		}
		x.oblige(fnName, "inv-keep", fmt.Sprintf("loop%d.%s", li.ordinal, cl.Label), cl.Expr, cl.Tags, x.pos(li.header.Instrs[0].Pos()), ec, t)
	}
}

func (x *Exec) execBlock(fr *Frame, b *ssa.BasicBlock, bc Term, st State, skip int) {
	for _, ins := range b.Instrs[skip:] {
		switch i := ins.(type) {
		case *ssa.If:
			c := x.term(fr.value(i.Cond), types.Typ[types.Bool], "if")
			c = x.C.Def("c", c)
			fr.bstate[b] = st
			x.edge(fr, b, b.Succs[0], And(bc, c), st)
			x.edge(fr, b, b.Succs[1], And(bc, Not(c)), st)
			return
		case *ssa.Jump:
			fr.bstate[b] = st
			x.edge(fr, b, b.Succs[0], bc, st)
			return
		case *ssa.Return:
			var vals []Value
			for _, r := range i.Results {
				vals = append(vals, fr.value(r))
			}
			fr.rets = append(fr.rets, retPoint{cond: bc, st: st, vals: vals})
			fr.bstate[b] = st
			return
		case *ssa.Panic:
			x.safety(fr, "panic", "explicit panic is unreachable", i.Pos(), bc, BoolLit(false))
			fr.bstate[b] = st
			return
		default:
			x.execInstr(fr, ins, bc, st)
		}
	}
	fr.bstate[b] = st
}

func (x *Exec) edge(fr *Frame, from, to *ssa.BasicBlock, ec Term, st State) {
	if to.Dominates(from) {
		if li := fr.loops[to]; li != nil {
			x.checkBackEdge(fr, from, li, ec, st)
		}
		return
	}
	fr.econd[[2]int{from.Index, to.Index}] = ec
}

// value returns the engine value of an SSA operand.
func (fr *Frame) value(v ssa.Value) Value {
	x := fr.x
	switch c := v.(type) {
	case *ssa.Const:
		return x.constValue(c)
	case *ssa.Function:
		return Value{Kind: VFunc, Fn: c, Typ: c.Type()}
	case *ssa.Global:
		return x.globalAddr(c)
	case *ssa.Builtin:
		return Value{Kind: VFunc, Ext: "builtin." + c.Name(), Typ: c.Type()}
	}
	if val, ok := fr.vals[v]; ok {
		return val
	}
	return poison("undefined SSA value "+v.Name(), v.Type())
}

func (x *Exec) globalAddr(g *ssa.Global) Value {
	el := g.Type().(*types.Pointer).Elem()
	if g.Pkg == x.E.Pkg {
		comp := "G_" + g.Name()
		if _, ok := x.E.CompSorts[comp]; ok {
			return Value{Kind: VAddr, A: &Addr{Kind: AGlobal, Comp: comp, Typ: el}, Typ: g.Type()}
		}
	}
	return poison("foreign global "+g.String(), g.Type())
}

func (x *Exec) constValue(c *ssa.Const) Value {
	t := c.Type()
	if c.Value == nil {
		// zero value / nil
		if _, _, ok := x.structOf(t); ok {
			return x.zeroValue(t)
		}
		return VT(zeroOf(sortOfOrInt(t)), t)
	}
	switch sortOfOrInt(t) {
	case SBool:
		return VT(BoolLit(constantBool(c)), t)
	case SStr:
		return VT(StrLit(constantString(c)), t)
	case SBV8:
		return VT(BVLit(8, c.Uint64()), t)
	case SBV16:
		return VT(BVLit(16, c.Uint64()), t)
	case SInt:
		if b, ok := t.Underlying().(*types.Basic); ok && b.Info()&types.IsInteger != 0 {
			if b.Info()&types.IsUnsigned != 0 {
				u := c.Uint64()
				if u > 1<<62 {
					return VT(T(SInt, fmt.Sprintf("%d", u)), t)
				}
				return VT(IntLit(int64(u)), t)
			}
			return VT(IntLit(c.Int64()), t)
		}
		// floats etc: opaque
		return VT(x.C.Fresh("fconst", SInt), t)
	}
	return poison("constant of unsupported type "+t.String(), t)
}

// isLocalAllocBase: the pointer is (a field of) a non-escaping, non-array local variable.
func isLocalAllocBase(p ssa.Value) bool {
	for {
		switch a := p.(type) {
		case *ssa.Alloc:
			if a.Heap {
				return false
			}
			_, isArr := a.Type().(*types.Pointer).Elem().Underlying().(*types.Array)
			return !isArr
		case *ssa.FieldAddr:
			p = a.X
		default:
			return false
		}
	}
}
