package main

// Bounded audit (labelled "bounded", never counted as proved): the assumed
// contract of the reflect-based alias converters and the axioms of the thin
// reflect model are compared with the real functions over a value catalogue.

import (
	"fmt"
	"regexp"
	"strconv"
	"strings"
)

const auditTest = `package stackage

import (
	"fmt"
	"reflect"
	"testing"
)

type gvcA1 Stack
type gvcA2 Stack

func (a gvcA2) String() string { return Stack(a).String() }

type gvcC1 Condition
type gvcEmb struct{ Stack }
type gvcPriv struct{ a int }

func TestGvcAudit(t *testing.T) {
	s := List().Push(1, "two")
	s2 := And()
	c := Cond("k", Eq, "v")
	a1 := gvcA1(s)
	a2 := gvcA2(s2)
	pa1 := &a1
	ppa1 := &pa1
	pa2 := &a2
	var nilpa1 *gvcA1
	pnilpa1 := &nilpa1
	var nilps *Stack
	ps := &s
	var zeroA1 gvcA1
	pzeroA1 := &zeroA1
	c1 := gvcC1(c)
	pc1 := &c1
	var nilpc1 *gvcC1
	var zeroC1 gvcC1
	pc := &c
	var nilpc *Condition

	type cse struct {
		name      string
		v         any
		wantStack bool
		under     *stack
		wantCond  bool
		underC    *condition
	}
	cases := []cse{
		{"native stack", s, true, s.stack, false, nil},
		{"native empty stack", s2, true, s2.stack, false, nil},
		{"zero native stack", Stack{}, true, nil, false, nil},
		{"alias", a1, true, s.stack, false, nil},
		{"alias with String", a2, true, s2.stack, false, nil},
		{"*alias", pa1, true, s.stack, false, nil},
		{"**alias", ppa1, true, s.stack, false, nil},
		{"*alias with String", pa2, true, s2.stack, false, nil},
		{"*Stack", ps, true, s.stack, false, nil},
		{"typed nil *alias", nilpa1, false, nil, false, nil},
		{"pointer to nil *alias", pnilpa1, false, nil, false, nil},
		{"typed nil *Stack", nilps, false, nil, false, nil},
		{"zero alias", zeroA1, false, nil, false, nil},
		{"*zero alias", pzeroA1, false, nil, false, nil},
		{"native condition", c, false, nil, true, c.condition},
		{"zero native condition", Condition{}, false, nil, true, nil},
		{"condition alias", c1, false, nil, true, c.condition},
		{"*condition alias", pc1, false, nil, true, c.condition},
		{"*Condition", pc, false, nil, true, c.condition},
		{"typed nil *condition alias", nilpc1, false, nil, false, nil},
		{"typed nil *Condition", nilpc, false, nil, false, nil},
		{"zero condition alias", zeroC1, false, nil, false, nil},
		{"nil", nil, false, nil, false, nil},
		{"int", 3, false, nil, false, nil},
		{"string", "x", false, nil, false, nil},
		{"bool", true, false, nil, false, nil},
		{"float NaN", func() float64 { var z float64; return z / z }(), false, nil, false, nil},
		{"[]any", []any{1}, false, nil, false, nil},
		{"map", map[string]int{"a": 1}, false, nil, false, nil},
		{"nil map", map[string]int(nil), false, nil, false, nil},
		{"func", func() {}, false, nil, false, nil},
		{"nil func", (func())(nil), false, nil, false, nil},
		{"chan", make(chan int), false, nil, false, nil},
		{"struct embedding Stack", gvcEmb{s}, false, nil, false, nil},
		{"private-field struct", gvcPriv{1}, false, nil, false, nil},
		{"*int", new(int), false, nil, false, nil},
		{"**int nil", (**int)(nil), false, nil, false, nil},
		{"ComparisonOperator", Eq, false, nil, false, nil},
		{"error", fmt.Errorf("e"), false, nil, false, nil},
	}
	n, fails := 0, 0
	report := func(format string, a ...any) {
		fails++
		fmt.Printf("GVC-AUDIT-FAIL "+format+"\n", a...)
	}
	for _, cs := range cases {
		func() {
			defer func() {
				if e := recover(); e != nil {
					report("%s: panic %v", cs.name, e)
				}
			}()
			n++
			S, ok := stackTypeAliasConverter(cs.v)
			if ok != cs.wantStack {
				report("%s: stack converted=%v want %v", cs.name, ok, cs.wantStack)
			} else if ok && S.stack != cs.under {
				report("%s: stack converter returned a different underlying instance", cs.name)
			} else if !ok && S.stack != nil {
				report("%s: stack converter returned non-zero on failure", cs.name)
			}
			n++
			C, okc := conditionTypeAliasConverter(cs.v)
			if okc != cs.wantCond {
				report("%s: condition converted=%v want %v", cs.name, okc, cs.wantCond)
			} else if okc && C.condition != cs.underC {
				report("%s: condition converter returned a different underlying instance", cs.name)
			} else if !okc && C.condition != nil {
				report("%s: condition converter returned non-zero on failure", cs.name)
			}
			// exported wrappers agree with the private converters
			n++
			if S2, ok2 := ConvertStack(cs.v); ok2 != ok || S2.stack != S.stack {
				report("%s: ConvertStack disagrees with the converter", cs.name)
			}
			n++
			if C2, ok2 := ConvertCondition(cs.v); ok2 != okc || C2.condition != C.condition {
				report("%s: ConvertCondition disagrees with the converter", cs.name)
			}
			// reflect model axioms
			n++
			if (reflect.TypeOf(cs.v) == nil) != (cs.v == nil) {
				report("%s: axiom TypeOf(nil)", cs.name)
			}
			if cs.v != nil {
				n++
				v := reflect.ValueOf(cs.v)
				if !v.IsValid() {
					report("%s: axiom ValueOf valid", cs.name)
				}
				if v.Kind() == reflect.Ptr {
					n++
					if v.Elem().IsValid() != !v.IsNil() {
						report("%s: axiom Elem of nil pointer", cs.name)
					}
					n++
					if reflect.TypeOf(cs.v).Elem() == nil {
						report("%s: axiom pointer type has element type", cs.name)
					}
				}
			}
		}()
	}
	// behavioural clauses of the property on small trees: a parent holding the alias form behaves
	// like the parent holding the native value it converts to
	type pair struct {
		name   string
		native Stack
		alias  any
	}
	nat := And().Push("a", "b")
	natA := gvcA1(nat)
	natA2 := gvcA2(nat)
	pairs := []pair{{"alias", nat, natA}, {"alias with String", nat, natA2}, {"*alias", nat, &natA}, {"*alias with String", nat, &natA2}}
	for _, p := range pairs {
		func() {
			defer func() {
				if e := recover(); e != nil {
					report("behaviour %s: panic %v", p.name, e)
				}
			}()
			pn := List().Push("x", p.native, "y")
			pa := List().Push("x", p.alias, "y")
			n++
			if pn.String() != pa.String() {
				report("behaviour %s: parent String() %q (native) vs %q (alias)", p.name, pn.String(), pa.String())
			}
			n++
			if pn.IsNesting() != pa.IsNesting() {
				report("behaviour %s: IsNesting differs", p.name)
			}
			n++
			if e1, e2 := pn.IsEqual(pa), pa.IsEqual(pn); e1 != nil || e2 != nil {
				report("behaviour %s: IsEqual native/alias: %v / %v", p.name, e1, e2)
			}
			n++
			un, _ := pn.Unmarshal()
			ua, _ := pa.Unmarshal()
			if !reflect.DeepEqual(un, ua) {
				report("behaviour %s: Unmarshal differs", p.name)
			}
			n++
			vn, okn := pn.Traverse(1, 0)
			va, oka := pa.Traverse(1, 0)
			if okn != oka || vn != va {
				report("behaviour %s: Traverse differs", p.name)
			}
			cn := Cond("k", Eq, p.native)
			ca := Cond("k", Eq, p.alias)
			n++
			if cn.String() != ca.String() {
				report("behaviour %s: Condition String() %q (native) vs %q (alias)", p.name, cn.String(), ca.String())
			}
			n++
			if cn.Len() != ca.Len() || cn.IsNesting() != ca.IsNesting() {
				report("behaviour %s: Condition Len/IsNesting differs", p.name)
			}
			n++
			if x := Cond("k", Eq, "v").SetNoNesting(true).SetExpression(p.alias); x.Expression() != "v" {
				report("behaviour %s: no-nesting Condition accepted the alias", p.name)
			}
			n++
			if l := List().SetNoNesting(true).Push(1, p.alias, 2).Len(); l != 2 {
				report("behaviour %s: no-nesting Push kept %d values, want 2", p.name, l)
			}
			n++
			d := List()
			if ok := List().Push(p.alias).Transfer(d); !ok || d.Len() != 1 {
				report("behaviour %s: Transfer of an alias element", p.name)
			}
		}()
	}
	fmt.Printf("GVC-AUDIT cases=%d values=%d failures=%d\n", n, len(cases)+len(pairs), fails)
}
`

type auditResult struct {
	What     string
	Cases    int
	Values   int
	Failures []string
	Output   string
}

var auditRe = regexp.MustCompile(`GVC-AUDIT cases=(\d+) values=(\d+) failures=(\d+)`)

func (e *Engine) auditConverters() auditResult {
	src := strings.Replace(auditTest, "TestGvcAudit", "TestGvcReplay", 1)
	out, _ := e.runGoTest(src)
	return parseAudit(out, "bounded audit of the assumed converter contract and reflect axioms")
}

func parseAudit(out, what string) auditResult {
	r := auditResult{Output: out, What: what}
	if m := auditRe.FindStringSubmatch(out); m != nil {
		r.Cases, _ = strconv.Atoi(m[1])
		r.Values, _ = strconv.Atoi(m[2])
	} else {
		r.Failures = append(r.Failures, "audit did not complete: "+truncate(out, 400))
	}
	for _, l := range strings.Split(out, "\n") {
		if strings.HasPrefix(strings.TrimSpace(l), "GVC-AUDIT-FAIL ") {
			r.Failures = append(r.Failures, strings.TrimPrefix(strings.TrimSpace(l), "GVC-AUDIT-FAIL "))
		}
	}
	return r
}

func (r auditResult) summary() string {
	return fmt.Sprintf("%s: %d checks over %d catalogue values, %d failures", r.What, r.Cases, r.Values, len(r.Failures))
}
