package main

// Conformance replay (thorough tier): for each function under contract that the
// witness builder can call, an input satisfying the precondition is taken from
// the quantifier-free relaxation of the reachability (cover) obligation, the
// real function is run on it, and every *proved* postcondition is evaluated on
// the observed execution.  A proved clause that is false on a real execution
// means the engine's semantics (or the harness) misrepresents the code: the
// check is broken, not the code.  This guards the verifier, it proves nothing.

import (
	"fmt"
	"strings"
)

type conformResult struct {
	Func     string
	Ran      bool
	Panicked bool
	Checked  int
	Mismatch []string
	Note     string
}

func (e *Engine) conformFunction(res *FuncResult, o runOpts) conformResult {
	cr := conformResult{Func: res.Key}
	if res.Fn == nil || res.X == nil || res.Err != "" {
		cr.Note = "not executable by the harness"
		return cr
	}
	var cover *Goal
	for _, g := range res.Goals {
		if g.Kind == "canary" {
			cover = g
		}
	}
	if cover == nil {
		cr.Note = "no reachability obligation"
		return cr
	}
	shapes := []string{"", "((_ is v_str) %s)", "(and ((_ is v_Stack) %s) (not (= (stack_of %s) 0)))"}
	if !hasValParam(res) {
		shapes = shapes[:1]
	}
	for _, sh := range shapes {
		w, ok := e.concretiseOpt(res, cover, o, qopt{Relaxed: true, Shape: sh})
		if !ok {
			cr.Note = "no input could be built for the precondition"
			continue
		}
		out, okRun := e.runGoTest(w.GoTest)
		if !okRun {
			cr.Note = "harness did not build: " + truncate(out, 200)
			continue
		}
		cr.Ran = true
		if strings.Contains(out, "GVC-PANIC:") || strings.Contains(out, "panic:") {
			// the candidate may violate quantified parts of the precondition; a panic on such an input proves nothing
			cr.Panicked = true
			cr.Note = "candidate input (relaxation) made the function panic; not counted"
			continue
		}
		if !strings.Contains(out, "GVC-DONE") {
			continue
		}
		for _, g := range res.Goals {
			if g.Kind != "post" || g.Status != "proved" || (g.Func != res.Key && g.Func != fnKey(res.Fn)) {
				continue
			}
			bad, why := e.confirmPostOpt(res, g, w, out, o, true)
			cr.Checked++
			if bad {
				cr.Mismatch = append(cr.Mismatch, fmt.Sprintf("%s is proved but false on a real execution (%s)", g.Name, why))
			}
		}
		return cr
	}
	return cr
}
