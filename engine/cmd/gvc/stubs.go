package main

func (e *Engine) selftest(o runOpts) int { return 2 }
