package main

func (e *Engine) schemaContract(key string) *Contract { return nil }
func (e *Engine) checkProperty(prop string, o runOpts) int { return 2 }
func (e *Engine) replayFile(path string) int { return 2 }
func (e *Engine) selftest(o runOpts) int { return 2 }
