package main

// Candidate search for undecided obligations: the quantifier-free relaxation
// of a query, enriched with a bounded number of ground instances - unfoldings
// of the recursive spec functions and instances of the prelude axioms whose
// trigger is one application over the bound variables. A model of this
// relaxation is only a candidate input; it counts when the replay on the real
// code confirms it.

import (
	"fmt"
	"os"
	"strings"
)

type axiomPat struct {
	Fn   string
	Vars []string
	Body *sx
}

// preludeAxiomPats extracts (assert (forall (vars) (! body :pattern ((f v1 .. vn))))) with distinct variables.
func preludeAxiomPats(prelude string) []axiomPat {
	var out []axiomPat
	for _, f := range parseSexprs(prelude) {
		if f.IsAtom || len(f.Kids) != 2 || f.Kids[0].Atom != "assert" {
			continue
		}
		q := f.Kids[1]
		if q.IsAtom || len(q.Kids) != 3 || q.Kids[0].Atom != "forall" {
			continue
		}
		bang := q.Kids[2]
		if bang.IsAtom || len(bang.Kids) < 4 || bang.Kids[0].Atom != "!" || bang.Kids[2].Atom != ":pattern" {
			continue
		}
		pats := bang.Kids[3]
		if pats.IsAtom || len(pats.Kids) != 1 {
			continue
		}
		p := pats.Kids[0]
		if p.IsAtom || len(p.Kids) < 2 || !p.Kids[0].IsAtom {
			continue
		}
		bound := map[string]bool{}
		for _, b := range q.Kids[1].Kids {
			bound[b.Kids[0].Atom] = true
		}
		var vars []string
		ok := true
		seen := map[string]bool{}
		for _, a := range p.Kids[1:] {
			if !a.IsAtom || !bound[a.Atom] || seen[a.Atom] {
				ok = false
				break
			}
			seen[a.Atom] = true
			vars = append(vars, a.Atom)
		}
		if !ok || len(vars) != len(bound) {
			continue
		}
		out = append(out, axiomPat{Fn: p.Kids[0].Atom, Vars: vars, Body: bang.Kids[1]})
	}
	return out
}

func collectApps(s *sx, heads map[string]bool, out *[]*sx) {
	if s == nil || s.IsAtom {
		return
	}
	if len(s.Kids) > 0 && s.Kids[0].IsAtom {
		h := s.Kids[0].Atom
		if h == "forall" || h == "exists" || h == "let" {
			return
		}
		if heads[h] {
			*out = append(*out, s)
		}
	}
	for _, k := range s.Kids {
		collectApps(k, heads, out)
	}
}

// groundInstances: rounds of instantiation over the given ground assertion bodies.
func groundInstances(bodies []string, defs map[string]*recDef, pats []axiomPat, rounds, limit int) []string {
	heads := map[string]bool{}
	for n := range defs {
		heads[n] = true
	}
	byFn := map[string][]axiomPat{}
	for _, p := range pats {
		heads[p.Fn] = true
		byFn[p.Fn] = append(byFn[p.Fn], p)
	}
	seen := map[string]bool{}
	var out []string
	var work []*sx
	for _, b := range bodies {
		for _, f := range parseSexprs(b) {
			work = append(work, f)
		}
	}
	for r := 0; r < rounds && len(work) > 0 && len(out) < limit; r++ {
		var apps []*sx
		for _, w := range work {
			collectApps(w, heads, &apps)
		}
		work = nil
		for _, a := range apps {
			key := a.String()
			if seen[key] {
				continue
			}
			seen[key] = true
			h := a.Kids[0].Atom
			if d, ok := defs[h]; ok && len(a.Kids)-1 == len(d.Params) {
				m := map[string]*sx{}
				for i, p := range d.Params {
					m[p[0]] = a.Kids[i+1]
				}
				inst := &sx{Kids: []*sx{{Atom: "=", IsAtom: true}, a, substSx(d.Body, m)}}
				out = append(out, inst.String())
				work = append(work, inst.Kids[2])
			}
			for _, p := range byFn[h] {
				if len(a.Kids)-1 != len(p.Vars) {
					continue
				}
				m := map[string]*sx{}
				for i, v := range p.Vars {
					m[v] = a.Kids[i+1]
				}
				inst := substSx(p.Body, m)
				out = append(out, inst.String())
				work = append(work, inst)
			}
			if len(out) >= limit {
				break
			}
		}
	}
	return out
}

var relaxDefs map[string]*recDef
var relaxPats []axiomPat

func relaxInstances(bodies []string) string {
	if relaxDefs == nil {
		return ""
	}
	var b strings.Builder
	rounds := 7
	if v := os.Getenv("GVC_RELAX_ROUNDS"); v != "" {
		fmt.Sscanf(v, "%d", &rounds)
	}
	for _, s := range groundInstances(bodies, relaxDefs, relaxPats, rounds, 800) {
		b.WriteString("(assert " + s + ")\n")
	}
	return b.String()
}
