package main

// SMT plumbing: terms are plain strings paired with a sort; a Ctx collects
// declarations, facts and goals in program order; each goal becomes one
// self-contained SMT-LIB2 query which is raced on the installed solvers.

import (
	"runtime"
	"sync/atomic"
	"bytes"
	"context"
	"fmt"
	"os"
	"os/exec"
	"path/filepath"
	"sort"
	"strings"
	"sync"
	"time"
)

type Term struct {
	S    string
	Sort string
}

func (t Term) String() string { return t.S }

const (
	SInt   = "Int"
	SBool  = "Bool"
	SStr   = "String"
	SVal   = "Val"
	SSlice = "Slice"
	SBV8   = "(_ BitVec 8)"
	SBV16  = "(_ BitVec 16)"
	SRVal  = "RVal" // reflect.Value / opaque
)

func T(sort, s string) Term { return Term{S: s, Sort: sort} }

func IntLit(n int64) Term {
	if n < 0 {
		// avoid overflow on MinInt64
		if n == -9223372036854775808 {
			return T(SInt, "(- 9223372036854775808)")
		}
		return T(SInt, fmt.Sprintf("(- %d)", -n))
	}
	return T(SInt, fmt.Sprintf("%d", n))
}
func BoolLit(b bool) Term {
	if b {
		return T(SBool, "true")
	}
	return T(SBool, "false")
}
func BVLit(bits int, v uint64) Term {
	if bits == 8 {
		return T(SBV8, fmt.Sprintf("#x%02x", v&0xff))
	}
	return T(SBV16, fmt.Sprintf("#x%04x", v&0xffff))
}

// StrLit renders a Go string as an SMT-LIB 2.6 string literal. Bytes outside
// printable ASCII are written as \u{..}; each Go byte is one SMT character.
func StrLit(s string) Term {
	var b strings.Builder
	b.WriteByte('"')
	for i := 0; i < len(s); i++ {
		c := s[i]
		switch {
		case c == '"':
			b.WriteString(`""`)
		case c == '\\':
			b.WriteString(`\u{5c}`)
		case c >= 32 && c < 127:
			b.WriteByte(c)
		default:
			fmt.Fprintf(&b, `\u{%x}`, c)
		}
	}
	b.WriteByte('"')
	return T(SStr, b.String())
}

func app(f string, args ...string) string {
	if len(args) == 0 {
		return f
	}
	return "(" + f + " " + strings.Join(args, " ") + ")"
}

func And(ts ...Term) Term {
	var xs []string
	for _, t := range ts {
		if t.S == "true" {
			continue
		}
		if t.S == "false" {
			return BoolLit(false)
		}
		xs = append(xs, t.S)
	}
	switch len(xs) {
	case 0:
		return BoolLit(true)
	case 1:
		return T(SBool, xs[0])
	}
	return T(SBool, app("and", xs...))
}
func Or(ts ...Term) Term {
	var xs []string
	for _, t := range ts {
		if t.S == "false" {
			continue
		}
		if t.S == "true" {
			return BoolLit(true)
		}
		xs = append(xs, t.S)
	}
	switch len(xs) {
	case 0:
		return BoolLit(false)
	case 1:
		return T(SBool, xs[0])
	}
	return T(SBool, app("or", xs...))
}
func Not(t Term) Term {
	switch t.S {
	case "true":
		return BoolLit(false)
	case "false":
		return BoolLit(true)
	}
	if strings.HasPrefix(t.S, "(not ") {
		return T(SBool, t.S[5:len(t.S)-1])
	}
	return T(SBool, app("not", t.S))
}
func Implies(a, b Term) Term {
	if a.S == "true" {
		return b
	}
	if a.S == "false" || b.S == "true" {
		return BoolLit(true)
	}
	return T(SBool, app("=>", a.S, b.S))
}
func Eq(a, b Term) Term {
	if a.S == b.S {
		return BoolLit(true)
	}
	return T(SBool, app("=", a.S, b.S))
}
func Ite(c, a, b Term) Term {
	if c.S == "true" {
		return a
	}
	if c.S == "false" {
		return b
	}
	if a.S == b.S {
		return a
	}
	return T(a.Sort, app("ite", c.S, a.S, b.S))
}
func Select(arr Term, idx Term, elemSort string) Term {
	return T(elemSort, app("select", arr.S, idx.S))
}
func Store(arr Term, idx Term, v Term) Term {
	return T(arr.Sort, app("store", arr.S, idx.S, v.S))
}
func ArrSort(elem string) string  { return "(Array Int " + elem + ")" }
func Arr2Sort(elem string) string { return ArrSort(ArrSort(elem)) }

// ---------------------------------------------------------------------

// An Item is one entry of the verification context, in program order.
type Item struct {
	Kind  int // 0 decl, 1 assert(fact), 2 goal
	Name  string
	Sort  string
	Body  string // assert text or goal text (positive form)
	Guard string
	Goal  *Goal
	Soft    bool   // assumption made for proof convenience (asserted goal, loop invariant): excluded when a concrete execution is evaluated
	DefName string // definitional equality: DefName = Fact
	GuardS  string
	Fact    string
	syms    []string
	fsyms   []string
}

type Goal struct {
	Name    string // obligation name: <func>#<kind>#<label>
	Func    string
	Kind    string // safety, post, pre, inv-init, inv-keep, frame, schema, canary, cover
	Tags    []string
	Text    string // human description
	Guard   string
	Body    string
	Pos     string
	ExpectSat bool // canary / cover: the negation must NOT be unsat
	upto    int    // number of items visible to this goal
	// result
	Status   string // proved, failed, unknown, sat-ok(canary), broken
	Solver   string
	Secs     float64
	Model    map[string]string
	Output   string
	QueryTxt string
	WantVals []string
	Retried  bool
}

type Ctx struct {
	Prelude string
	Items   []Item
	Goals   []*Goal
	nfresh  int
	Extra   []string
	declNames map[string]bool
	mu        sync.Mutex
	declared map[string]bool
}

func NewCtx(prelude string) *Ctx {
	return &Ctx{Prelude: prelude, declared: map[string]bool{}}
}

func sanitize(s string) string {
	var b strings.Builder
	for _, c := range s {
		switch {
		case c >= 'a' && c <= 'z', c >= 'A' && c <= 'Z', c >= '0' && c <= '9', c == '_':
			b.WriteRune(c)
		case c == '.', c == '$', c == '#':
			b.WriteByte('_')
		}
	}
	return b.String()
}

func (c *Ctx) Fresh(hint, sort string) Term {
	c.nfresh++
	name := fmt.Sprintf("%s!%d", sanitize(hint), c.nfresh)
	c.Items = append(c.Items, Item{Kind: 0, Name: name, Sort: sort})
	return T(sort, name)
}

// Declare a named constant once (used for entry-state symbols).
func (c *Ctx) Const(name, sort string) Term {
	if !c.declared[name] {
		c.declared[name] = true
		c.Items = append(c.Items, Item{Kind: 0, Name: name, Sort: sort})
	}
	return T(sort, name)
}

// Def introduces a name for a term (unconditional definition).
func (c *Ctx) Def(hint string, t Term) Term {
	// do not name atoms
	if !strings.ContainsAny(t.S, " (") {
		return t
	}
	n := c.Fresh(hint, t.Sort)
	c.Items = append(c.Items, Item{Kind: 1, Body: app("=", n.S, t.S), DefName: n.S, Fact: t.S})
	return n
}

func (c *Ctx) Assume(guard Term, fact Term) {
	f := Implies(guard, fact)
	if f.S == "true" {
		return
	}
	c.Items = append(c.Items, Item{Kind: 1, Body: f.S, GuardS: guard.S, Fact: fact.S})
}

// AssumeSoft: like Assume, for facts that were only asserted (goals) or are loop invariants.
func (c *Ctx) AssumeSoft(guard Term, fact Term) {
	n := len(c.Items)
	c.Assume(guard, fact)
	for i := n; i < len(c.Items); i++ {
		c.Items[i].Soft = true
	}
}

func (c *Ctx) AddGoal(g *Goal, guard, body Term) {
	g.Guard = guard.S
	g.Body = body.S
	g.upto = len(c.Items)
	c.Goals = append(c.Goals, g)
	c.Items = append(c.Items, Item{Kind: 2, Goal: g})
}

// Query text for a goal: prelude + all decls/facts before it + negated goal.
var queryNoSoft bool

type qopt struct {
	Shape   string // candidate search: constraint template ("%s" = term) tried on every interface-typed parameter
	Relaxed bool   // drop every quantified assertion (candidate models only; a model is trusted only after replay)
	Defs    string // defining equations of the recursive spec functions, as axioms (evaluation of concrete executions)
}

func hasQuantifier(s string) bool {
	return strings.Contains(s, "(forall ") || strings.Contains(s, "(exists ")
}

// stripQuantified removes the top-level assertions of an SMT text that contain a quantifier.
func stripQuantified(text string) string {
	var out strings.Builder
	depth, start := 0, 0
	inComment, inStr := false, false
	for i := 0; i < len(text); i++ {
		ch := text[i]
		if inComment {
			if ch == '\n' {
				inComment = false
			}
			continue
		}
		if inStr {
			if ch == '"' {
				inStr = false
			}
			continue
		}
		switch ch {
		case ';':
			inComment = true
		case '"':
			inStr = true
		case '(':
			if depth == 0 {
				out.WriteString(text[start:i])
				start = i
			}
			depth++
		case ')':
			depth--
			if depth == 0 {
				form := text[start : i+1]
				start = i + 1
				if strings.HasPrefix(form, "(assert") && hasQuantifier(form) {
					continue
				}
				if strings.HasPrefix(form, "(define-fun ") && hasQuantifier(form) {
					// a quantified definition becomes an uninterpreted symbol in the relaxation
					if xs := parseSexprs(form); len(xs) == 1 && len(xs[0].Kids) == 5 {
						var sorts []string
						for _, p := range xs[0].Kids[2].Kids {
							sorts = append(sorts, p.Kids[1].String())
						}
						fmt.Fprintf(&out, "(declare-fun %s (%s) %s)", xs[0].Kids[1].Atom, strings.Join(sorts, " "), xs[0].Kids[3].String())
						continue
					}
				}
				out.WriteString(form)
			}
		}
	}
	out.WriteString(text[start:])
	return out.String()
}

func (c *Ctx) Query(g *Goal, getvals []string) string {
	return c.QueryOpt(g, getvals, qopt{})
}

// relaxQuantifiers replaces every quantified subformula of a formula by a fresh Boolean constant
// (declared through decls); candidate search only.
func relaxQuantifiers(body string, n *int, decls *[]string) string {
	if !hasQuantifier(body) {
		return body
	}
	xs := parseSexprs(body)
	if len(xs) != 1 {
		return "true"
	}
	var walk func(s *sx) *sx
	walk = func(s *sx) *sx {
		if s.IsAtom {
			return s
		}
		if len(s.Kids) > 0 && s.Kids[0].IsAtom && (s.Kids[0].Atom == "forall" || s.Kids[0].Atom == "exists") {
			*n++
			name := fmt.Sprintf("relaxq_%d", *n)
			*decls = append(*decls, name)
			return &sx{Atom: name, IsAtom: true}
		}
		out := &sx{}
		for _, k := range s.Kids {
			out.Kids = append(out.Kids, walk(k))
		}
		return out
	}
	return walk(xs[0]).String()
}

func (c *Ctx) QueryOpt(g *Goal, getvals []string, qo qopt) string {
	var b bytes.Buffer
	b.WriteString("(set-option :produce-models true)\n(set-logic ALL)\n")
	if qo.Relaxed {
		b.WriteString(stripQuantified(c.Prelude))
	} else {
		b.WriteString(c.Prelude)
	}
	for _, d := range c.Extra {
		if qo.Relaxed && hasQuantifier(d) {
			continue
		}
		b.WriteString(d)
		b.WriteString("\n")
	}
	b.WriteString(qo.Defs)
	var ground []string
	nrelax := 0
	b.WriteString("\n; ---- facts\n")
	// relevance slicing: keep every decl; keep facts (cheap and safe).
	for _, it := range c.Items[:g.upto] {
		switch it.Kind {
		case 0:
			fmt.Fprintf(&b, "(declare-const %s %s)\n", it.Name, it.Sort)
		case 1:
			if queryNoSoft && it.Soft {
				continue
			}
			body := it.Body
			if qo.Relaxed && hasQuantifier(body) {
				var decls []string
				body = relaxQuantifiers(body, &nrelax, &decls)
				for _, d := range decls {
					fmt.Fprintf(&b, "(declare-const %s Bool)\n", d)
				}
			}
			if qo.Relaxed {
				ground = append(ground, body)
			}
			fmt.Fprintf(&b, "(assert %s)\n", body)
		}
	}
	gGuard, gBody := g.Guard, g.Body
	if qo.Relaxed {
		var decls []string
		gGuard = relaxQuantifiers(gGuard, &nrelax, &decls)
		gBody = relaxQuantifiers(gBody, &nrelax, &decls)
		for _, d := range decls {
			fmt.Fprintf(&b, "(declare-const %s Bool)\n", d)
		}
	}
	if qo.Relaxed {
		ground = append(ground, gGuard, gBody)
		b.WriteString("; ---- ground instances of recursive definitions and prelude axioms (candidate search)\n")
		b.WriteString(relaxInstances(ground))
	}
	b.WriteString("; ---- goal " + g.Name + "\n")
	if g.ExpectSat {
		// reachability: guard (and body) must be satisfiable
		fmt.Fprintf(&b, "(assert %s)\n", And(T(SBool, gGuard), T(SBool, gBody)).S)
	} else {
		fmt.Fprintf(&b, "(assert (not %s))\n", Implies(T(SBool, gGuard), T(SBool, gBody)).S)
	}
	b.WriteString("(check-sat)\n")
	if len(getvals) > 0 {
		fmt.Fprintf(&b, "(get-value (%s))\n", strings.Join(getvals, " "))
	}
	return b.String()
}

// symbolsOf returns the declared-constant symbols occurring in an SMT text.
func (c *Ctx) symbolsOf(s string) []string {
	var out []string
	seen := map[string]bool{}
	i := 0
	for i < len(s) {
		ch := s[i]
		if ch == '(' || ch == ')' || ch == ' ' || ch == '\n' {
			i++
			continue
		}
		if ch == '"' {
			j := i + 1
			for j < len(s) && s[j] != '"' {
				j++
			}
			i = j + 1
			continue
		}
		j := i
		for j < len(s) && s[j] != '(' && s[j] != ')' && s[j] != ' ' && s[j] != '\n' {
			j++
		}
		tok := s[i:j]
		i = j
		if c.declNames[tok] && !seen[tok] {
			seen[tok] = true
			out = append(out, tok)
		}
	}
	return out
}

// QuerySliced keeps only the facts in the cone of influence of the goal
// (dropping assumptions is sound; a proof of the sliced query is a proof of the full one).
func (c *Ctx) QuerySliced(g *Goal) string {
	c.mu.Lock()
	if c.declNames == nil {
		c.declNames = map[string]bool{}
		for _, it := range c.Items {
			if it.Kind == 0 {
				c.declNames[it.Name] = true
			}
		}
		for i := range c.Items {
			it := &c.Items[i]
			if it.Kind == 1 {
				it.syms = c.symbolsOf(it.Body)
				if it.Fact != "" {
					it.fsyms = c.symbolsOf(it.Fact)
				} else {
					it.fsyms = it.syms
				}
			}
		}
	}
	c.mu.Unlock()
	items := c.Items[:g.upto]
	rel := map[string]bool{}
	for _, s := range c.symbolsOf(g.Guard + " " + g.Body) {
		rel[s] = true
	}
	include := make([]bool, len(items))
	for changed := true; changed; {
		changed = false
		for i := range items {
			it := &items[i]
			if it.Kind != 1 || include[i] {
				continue
			}
			take := false
			if it.DefName != "" {
				take = rel[it.DefName]
			} else {
				if len(it.fsyms) == 0 {
					take = true // ground fact about prelude symbols only
				}
				for _, s := range it.fsyms {
					if rel[s] {
						take = true
						break
					}
				}
			}
			if take {
				include[i] = true
				changed = true
				for _, s := range it.syms {
					rel[s] = true
				}
			}
		}
	}
	var b bytes.Buffer
	for _, d := range c.Extra {
		b.WriteString(d)
		b.WriteString("\n")
	}
	b.WriteString("\n; ---- facts (sliced)\n")
	for i, it := range items {
		switch it.Kind {
		case 0:
			if rel[it.Name] {
				fmt.Fprintf(&b, "(declare-const %s %s)\n", it.Name, it.Sort)
			}
		case 1:
			if include[i] {
				fmt.Fprintf(&b, "(assert %s)\n", it.Body)
			}
		}
	}
	b.WriteString("; ---- goal " + g.Name + "\n")
	fmt.Fprintf(&b, "(assert (not %s))\n", Implies(T(SBool, g.Guard), T(SBool, g.Body)).S)
	b.WriteString("(check-sat)\n")
	rest := b.String()
	return "(set-option :produce-models true)\n(set-logic ALL)\n" + slicePrelude(c.Prelude, rest) + rest
}

// ---------------------------------------------------------------------
// Solvers

type solverSpec struct {
	Name string
	Argv []string
}

var keepFiles bool

var solvers = []solverSpec{
	{"z3-new-5.1.0", []string{"z3-new", "-smt2"}},
	{"z3-4.8.12", []string{"z3", "-smt2"}},
	{"cvc5-1.0.3", []string{"cvc5", "--full-saturate-quant", "--strings-exp"}},
}

type solveResult struct {
	Status string // unsat, sat, unknown, timeout, error
	Solver string
	Secs   float64
	Output string
}

// solverSlots bounds the number of solver processes running at once (case splits fan out widely;
// an overloaded machine turns provable goals into timeouts).
var solverSlots = make(chan struct{}, runtime.NumCPU()+2)

func runSolver(ctx context.Context, sp solverSpec, file string, timeout time.Duration) solveResult {
	select {
	case solverSlots <- struct{}{}:
	case <-ctx.Done():
		return solveResult{Solver: sp.Name, Status: "cancelled"}
	}
	defer func() { <-solverSlots }()
	start := time.Now()
	cctx, cancel := context.WithTimeout(ctx, timeout)
	defer cancel()
	argv := append([]string{}, sp.Argv[1:]...)
	if strings.HasPrefix(sp.Name, "z3") {
		argv = append(argv, fmt.Sprintf("-T:%d", int(timeout.Seconds())+1))
	} else {
		argv = append(argv, fmt.Sprintf("--tlimit=%d", int(timeout.Milliseconds())))
	}
	argv = append(argv, file)
	cmd := exec.CommandContext(cctx, sp.Argv[0], argv...)
	var out bytes.Buffer
	cmd.Stdout = &out
	cmd.Stderr = &out
	_ = cmd.Run()
	secs := time.Since(start).Seconds()
	s := out.String()
	first := strings.TrimSpace(s)
	if i := strings.IndexByte(first, '\n'); i >= 0 {
		first = strings.TrimSpace(first[:i])
	}
	st := "error"
	switch {
	case first == "unsat":
		st = "unsat"
	case first == "sat":
		st = "sat"
	case first == "unknown":
		st = "unknown"
	case strings.Contains(first, "timeout") || cctx.Err() != nil:
		st = "timeout"
	}
	return solveResult{Status: st, Solver: sp.Name, Secs: secs, Output: s}
}

// race runs all solvers on the query; first definitive (sat/unsat) wins.
// With all=true every solver is run to completion and disagreement is reported.
func race(query string, workdir, name string, timeout time.Duration, all bool) (solveResult, []solveResult) {
	file := filepath.Join(workdir, sanitize(name)+".smt2")
	_ = os.WriteFile(file, []byte(query), 0o644)
	ctx, cancel := context.WithCancel(context.Background())
	defer cancel()
	ch := make(chan solveResult, len(solvers))
	for _, sp := range solvers {
		sp := sp
		go func() { ch <- runSolver(ctx, sp, file, timeout) }()
	}
	var results []solveResult
	var best solveResult
	got := false
	for range solvers {
		r := <-ch
		results = append(results, r)
		if !got && (r.Status == "unsat" || r.Status == "sat") {
			best = r
			got = true
			if !all {
				cancel()
				break
			}
		}
	}
	if !got {
		// pick the most informative non-definitive
		best = results[0]
		for _, r := range results {
			if r.Status == "unknown" {
				best = r
			}
		}
		best.Status = worstStatus(results)
	}
	if !keepFiles {
		os.Remove(file)
	}
	return best, results
}

func worstStatus(rs []solveResult) string {
	st := "error"
	for _, r := range rs {
		if r.Status == "unknown" {
			return "unknown"
		}
		if r.Status == "timeout" {
			st = "timeout"
		}
	}
	return st
}

// parseGetValue parses "((a 1) (b (- 2)) ...)" into a map, tolerant.
func parseGetValue(out string) map[string]string {
	m := map[string]string{}
	i := strings.Index(out, "((")
	if i < 0 {
		return m
	}
	s := out[i:]
	toks := tokenize(s)
	pos := 0
	var parse func() *sx
	parse = func() *sx {
		if pos >= len(toks) {
			return nil
		}
		t := toks[pos]
		pos++
		if t == "(" {
			n := &sx{}
			for pos < len(toks) && toks[pos] != ")" {
				n.Kids = append(n.Kids, parse())
			}
			pos++
			return n
		}
		return &sx{Atom: t, IsAtom: true}
	}
	top := parse()
	if top == nil {
		return m
	}
	for _, k := range top.Kids {
		if k != nil && !k.IsAtom && len(k.Kids) == 2 {
			m[k.Kids[0].String()] = k.Kids[1].String()
		}
	}
	return m
}

// ---------------------------------------------------------------------
// tiny s-expression reader (prelude signatures, get-value output)

type sx struct {
	Atom   string
	IsAtom bool
	Kids   []*sx
}

func (s *sx) String() string {
	if s == nil {
		return ""
	}
	if s.IsAtom {
		return s.Atom
	}
	var xs []string
	for _, k := range s.Kids {
		xs = append(xs, k.String())
	}
	return "(" + strings.Join(xs, " ") + ")"
}

func tokenize(s string) []string {
	var toks []string
	i := 0
	for i < len(s) {
		c := s[i]
		switch {
		case c == ';':
			for i < len(s) && s[i] != '\n' {
				i++
			}
		case c == ' ' || c == '\t' || c == '\n' || c == '\r':
			i++
		case c == '(' || c == ')':
			toks = append(toks, string(c))
			i++
		case c == '"':
			j := i + 1
			for j < len(s) {
				if s[j] == '"' {
					if j+1 < len(s) && s[j+1] == '"' {
						j += 2
						continue
					}
					break
				}
				j++
			}
			toks = append(toks, s[i:j+1])
			i = j + 1
		case c == '|':
			j := i + 1
			for j < len(s) && s[j] != '|' {
				j++
			}
			toks = append(toks, s[i:j+1])
			i = j + 1
		default:
			j := i
			for j < len(s) && !strings.ContainsRune(" \t\n\r()", rune(s[j])) {
				j++
			}
			toks = append(toks, s[i:j])
			i = j
		}
	}
	return toks
}

func parseSexprs(s string) []*sx {
	toks := tokenize(s)
	pos := 0
	var parse func() *sx
	parse = func() *sx {
		t := toks[pos]
		pos++
		if t == "(" {
			n := &sx{}
			for pos < len(toks) && toks[pos] != ")" {
				n.Kids = append(n.Kids, parse())
			}
			pos++
			return n
		}
		return &sx{Atom: t, IsAtom: true}
	}
	var out []*sx
	for pos < len(toks) {
		out = append(out, parse())
	}
	return out
}

// ---------------------------------------------------------------------
// parallel discharge

type dischargeOpts struct {
	NoSlice bool
	Timeout time.Duration
	All     bool
	Workdir string
	Par     int
	Split   bool // retry undecided goals by case analysis on a branch condition
	SplitTimeout time.Duration
}

// splitProve: an undecided goal is retried by case analysis - first per return path (the disjuncts of
// the goal's guard), then on one branch condition of the code (a type-assertion outcome or an if
// condition): proved when every case is unsatisfiable.
func splitProve(c *Ctx, g *Goal, o dischargeOpts) {
	q := c.Query(g, nil)
	var cands []string
	seen := map[string]bool{}
	// branch conditions named in the goal itself (merged results) come first
	for _, tok := range tokenize(g.Guard + " " + g.Body) {
		if (strings.HasPrefix(tok, "bc!") || strings.HasPrefix(tok, "c!") || strings.HasPrefix(tok, "taok!")) && !seen[tok] && len(cands) < 12 {
			seen[tok] = true
			cands = append(cands, tok)
		}
	}
	for i := g.upto - 1; i >= 0 && len(cands) < 16; i-- {
		it := c.Items[i]
		if it.Kind != 0 || it.Sort != SBool || seen[it.Name] {
			continue
		}
		if !(strings.HasPrefix(it.Name, "taok!") || strings.HasPrefix(it.Name, "c!")) {
			continue
		}
		seen[it.Name] = true
		cands = append(cands, it.Name)
	}
	at := strings.LastIndex(q, "(check-sat)")
	if at < 0 {
		return
	}
	var nq int32
	prove1 := func(extra []string) bool {
		var b strings.Builder
		for _, e := range extra {
			b.WriteString("(assert " + e + ")\n")
		}
		n := atomic.AddInt32(&nq, 1)
		to := o.Timeout
		if o.SplitTimeout > 0 {
			to = o.SplitTimeout
		}
		r, _ := race(q[:at]+b.String()+q[at:], o.Workdir, fmt.Sprintf("%s_split%d", g.Name, n), to, false)
		return r.Status == "unsat"
	}
	proveSplit := func(extra []string) (bool, string) {
		if prove1(extra) {
			return true, ""
		}
		type res struct {
			name string
			ok   bool
		}
		ch := make(chan res, len(cands))
		for _, name := range cands {
			go func(name string) {
				ok := prove1(append(append([]string{}, extra...), name)) && prove1(append(append([]string{}, extra...), "(not "+name+")"))
				ch <- res{name, ok}
			}(name)
		}
		won := ""
		for range cands {
			if r := <-ch; r.ok && won == "" {
				won = r.name
			}
		}
		return won != "", won
	}
	t0 := time.Now()
	var disj []string
	if xs := parseSexprs(g.Guard); len(xs) == 1 {
		var flat func(s *sx)
		flat = func(s *sx) {
			if !s.IsAtom && len(s.Kids) > 0 && s.Kids[0].IsAtom && s.Kids[0].Atom == "or" {
				for _, k := range s.Kids[1:] {
					flat(k)
				}
				return
			}
			disj = append(disj, s.String())
		}
		flat(xs[0])
	}
	how := ""
	if len(disj) >= 2 {
		for _, d := range disj {
			ok, by := proveSplit([]string{d})
			if !ok {
				return
			}
			if by != "" {
				how += " " + d + ":" + by
			}
		}
		how = "case split per return path" + how
	} else {
		ok, by := proveSplit(nil)
		if !ok {
			return
		}
		how = "case split on " + by
	}
	g.Status = "proved"
	g.Solver = how
	g.Secs = time.Since(t0).Seconds()
	g.Output = "every case unsat"
}

func discharge(c *Ctx, goals []*Goal, o dischargeOpts) {
	sem := make(chan struct{}, o.Par)
	var wg sync.WaitGroup
	for _, g := range goals {
		g := g
		wg.Add(1)
		sem <- struct{}{}
		go func() {
			defer wg.Done()
			defer func() { <-sem }()
			if !g.ExpectSat && !o.NoSlice {
				qs := c.QuerySliced(g)
				rs, _ := race(qs, o.Workdir, g.Name+"_s", o.Timeout, false)
				if rs.Status == "unsat" {
					g.Status, g.Solver, g.Secs, g.Output = "proved", rs.Solver+" (sliced)", rs.Secs, rs.Output
					return
				}
			}
			q := c.Query(g, nil)
			g.QueryTxt = ""
			if len(q) > 4<<20 {
				g.Status = "broken"
				g.Output = fmt.Sprintf("VC too large: %d bytes", len(q))
				return
			}
			to := o.Timeout
			if g.ExpectSat && to > 1500*time.Millisecond {
				// vacuity guards: an inconsistent context is refuted at once; a model of the quantified
				// prelude is rarely found, and "unknown" is accepted anyway
				to = 1500 * time.Millisecond
			}
			best, all := race(q, o.Workdir, g.Name, to, o.All && !g.ExpectSat)
			g.Solver = best.Solver
			g.Secs = best.Secs
			g.Output = best.Output
			if o.All {
				sat, unsat := false, false
				for _, r := range all {
					if r.Status == "sat" {
						sat = true
					}
					if r.Status == "unsat" {
						unsat = true
					}
				}
				if sat && unsat {
					g.Status = "broken"
					g.Output = "solver disagreement: " + fmt.Sprint(all)
					return
				}
			}
			if g.ExpectSat {
				switch best.Status {
				case "unsat":
					g.Status = "broken" // vacuous: unreachable / contradictory assumptions
				default:
					g.Status = "proved" // sat or unknown: not refutable => reachable as far as we can tell
				}
				return
			}
			switch best.Status {
			case "unsat":
				g.Status = "proved"
			case "sat":
				g.Status = "failed"
				// fetch values for replay
				if len(g.WantVals) > 0 {
					q2 := c.Query(g, g.WantVals)
					r2, _ := race(q2, o.Workdir, g.Name+"_m", o.Timeout, false)
					if r2.Status == "sat" {
						g.Model = parseGetValue(r2.Output)
						g.Output = r2.Output
					}
				}
			default:
				g.Status = "unknown"
				if o.Split {
					splitProve(c, g, o)
				}
			}
		}()
	}
	wg.Wait()
}

func sortedKeys[V any](m map[string]V) []string {
	ks := make([]string, 0, len(m))
	for k := range m {
		ks = append(ks, k)
	}
	sort.Strings(ks)
	return ks
}
