package main

// C10 lock-invariant mode (filled in later).
func (x *Exec) lockInvariantHavoc(fr *Frame, m Term, bc Term, st State) {}
