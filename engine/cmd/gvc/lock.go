package main

// C10: lock-invariant reasoning (Owicki-Gries style) for mutex-enabled stacks.
//
// In a contract with mode "lock" the function is verified as one thread among
// many: after sync.Mutex.Lock returns, the state the lock protects (the header
// of the stack and its backing row) is forgotten and only the lock invariant
// wf(r) (with the same configuration record) is assumed, because another
// goroutine may have run since the function last looked.  Every store to
// protected state must happen while the lock is held (obligation kind "lock").

import "fmt"

func (x *Exec) lockInvariantHavoc(fr *Frame, m Term, bc Term, st State) {
	if x.lockRecv.S == "" {
		return
	}
	r := x.lockRecv
	h := x.C.Fresh("acq_hdr", SSlice)
	row := x.C.Fresh("acq_row", ArrSort(SVal))
	cs := x.comp(st, "Cell_stack")
	mv := x.comp(st, "Mem_Val")
	// only when the lock taken is this stack's lock
	mine := Eq(m, x.lockMtx)
	ncs := x.C.Def("Cell_stack_acq", Ite(mine, Store(cs, r, h), cs))
	nmv := x.C.Def("Mem_Val_acq", Ite(mine, Store(mv, T(SInt, app("s-arr", h.S)), row), mv))
	st["Cell_stack"] = ncs
	st["Mem_Val"] = nmv
	// a backing array installed by another goroutine is either the one seen before or one
	// this goroutine has never seen: it appears as a fresh allocation
	oldArr := T(SInt, app("s-arr", app("select", cs.S, r.S)))
	al0 := x.comp(st, "alloc")
	nal := x.C.Fresh("alloc_acq", SInt)
	x.C.Assume(BoolLit(true), T(SBool, fmt.Sprintf("(and (>= %s %s) (> %s (s-arr %s)))", nal.S, al0.S, nal.S, h.S)))
	x.C.Assume(And(bc, mine), Or(Eq(T(SInt, app("s-arr", h.S)), oldArr), T(SBool, fmt.Sprintf("(>= (s-arr %s) %s)", h.S, al0.S))))
	st["alloc"] = nal
	x.epochReset(st)
	al := x.comp(st, "alloc")
	typ := x.comp(st, "F_nodeConfig_typ")
	cp := x.comp(st, "F_nodeConfig_cap")
	lg := x.comp(st, "F_nodeConfig_log")
	wf := T(SBool, app("wf", ncs.S, nmv.S, typ.S, cp.S, lg.S, al.S, r.S))
	sameCfg := T(SBool, app("=", app("cfgOf", ncs.S, nmv.S, r.S), x.lockCfg.S))
	x.C.Assume(And(bc, mine), And(wf, sameCfg))
	// remember the acquisition state (merged if several paths acquire)
	if x.acqState == nil {
		x.acqState = st.clone()
	} else {
		x.acqState = x.mergeStates(bc, st.clone(), x.acqState)
	}
}

// lockCheck: a store to protected state of the locked stack requires the lock.
func (x *Exec) lockCheck(st State, comp string, ref Term) {
	if x.lockRecv.S == "" || x.curFr == nil {
		return
	}
	var target Term
	switch comp {
	case "Cell_stack":
		target = x.lockRecv
	case "Mem_Val":
		target = T(SInt, app("s-arr", app("select", x.comp(st, "Cell_stack").S, x.lockRecv.S)))
	case "F_nodeConfig_ldr":
		target = x.lockCfg
	default:
		return
	}
	held := T(SBool, app("select", x.comp(st, "G_held").S, x.lockMtx.S))
	body := Implies(Eq(ref, target), held)
	fn := fnKey(x.curFr.fn)
	if Implies(x.curBc, body).S == "true" {
		return
	}
	// asserted but not assumed afterwards: a violated discipline must not make the rest of the function vacuous
	g := &Goal{Name: x.goalName(fn, "lock", fmt.Sprintf("%s@%s", comp, x.posKey(x.curFr.fn, x.curPos))), Func: fn, Kind: "lock", Tags: []string{"C10"},
		Text: "store to lock-protected state (" + comp + ") happens while the stack's lock is held", Pos: x.pos(x.curPos)}
	x.C.AddGoal(g, x.curBc, body)
}
