package main

// From a solver model to a concrete execution of the real package.

import (
	"bytes"
	"encoding/json"
	"fmt"
	"go/types"
	"os"
	"os/exec"
	"path/filepath"
	"sort"
	"regexp"
	"runtime"
	"strconv"
	"strings"
	"sync"
	"time"
)

type ValDesc struct {
	Kind  string     `json:"kind"` // nil,int,str,bool,stack,cond,alias,other,cop,err,anys,unknown
	Int   int64      `json:"int,omitempty"`
	Str   string     `json:"str,omitempty"`
	Bool  bool       `json:"bool,omitempty"`
	Ref   int64      `json:"ref,omitempty"`
	Stack *StackDesc `json:"stack,omitempty"`
	Cond  *CondDesc  `json:"cond,omitempty"`
	Elems []ValDesc  `json:"elems,omitempty"`
	Raw   string     `json:"raw,omitempty"`
	OpStr string     `json:"op_str,omitempty"`
	OpCtx string     `json:"op_ctx,omitempty"`
}

type StackDesc struct {
	Ref    int64     `json:"ref"`
	Typ    int64     `json:"typ"`
	Opt    int64     `json:"opt"`
	Cap    int64     `json:"cap"`
	Ord    bool      `json:"fifo"`
	Mutex  bool      `json:"mutex"`
	Ppf    bool      `json:"push_policy"`
	HdrLen int64     `json:"hdr_len"`
	HdrCap int64     `json:"hdr_cap"`
	Elems  []ValDesc `json:"elems"`
	Sym    string     `json:"symbol,omitempty"`
	Ljc    string     `json:"delimiter,omitempty"`
	Enc    [][]string `json:"encap,omitempty"`
}

type CondDesc struct {
	Ref   int64   `json:"ref"`
	Kw    string  `json:"kw"`
	Op    ValDesc `json:"op"`
	Ex    ValDesc `json:"ex"`
	Opt   int64   `json:"opt"`
	ErrSet bool   `json:"err_set"`
}

type ArgDesc struct {
	Cond  *CondDesc  `json:"cond,omitempty"`
	Name  string     `json:"name"`
	GoTyp string     `json:"go_type"`
	Val   *ValDesc   `json:"val,omitempty"`
	Stack *StackDesc `json:"stack,omitempty"` // receiver-like
	Nil   bool       `json:"nil,omitempty"`
	Lit   string     `json:"lit,omitempty"`
	Slice []ValDesc  `json:"slice,omitempty"`
}

type Witness struct {
	Func   string    `json:"func"`
	Args   []ArgDesc `json:"args"`
	GoTest string    `json:"go_test"`
	Pins   []string  `json:"-"`
	OpVals []string  `json:"op_values,omitempty"` // SMT values of the user-defined operators built by the test
	Note   string    `json:"note,omitempty"`
}

const maxElems = 8

func (c *Ctx) QueryExtra(g *Goal, extra []string, getvals []string) string {
	return c.QueryExtraOpt(g, extra, getvals, qopt{})
}

func (c *Ctx) QueryExtraOpt(g *Goal, extra []string, getvals []string, qo qopt) string {
	q := c.QueryOpt(g, getvals, qo)
	if len(extra) == 0 {
		return q
	}
	i := strings.LastIndex(q, "(check-sat)")
	var b strings.Builder
	b.WriteString(q[:i])
	for _, e := range extra {
		b.WriteString("(assert " + e + ")\n")
	}
	b.WriteString(q[i:])
	return b.String()
}

type modelSession struct {
	res  *FuncResult
	g    *Goal
	o    runOpts
	pins []string
	vals map[string]string
	n    int
	qo   qopt
}

func (m *modelSession) ask(wants []string) bool {
	var need []string
	for _, w := range wants {
		if _, ok := m.vals[w]; !ok {
			need = append(need, w)
		}
	}
	if len(need) == 0 {
		return true
	}
	m.n++
	q := m.res.Ctx.QueryExtraOpt(m.g, m.pins, need, m.qo)
	r, _ := race(q, m.o.Workdir, fmt.Sprintf("%s_model%d", m.g.Name, m.n), m.o.Timeout, false)
	if r.Status != "sat" {
		if os.Getenv("GVC_DEBUG") != "" {
			fmt.Println("model query", m.n, "status", r.Status, "wants", need, truncate(r.Output, 300))
		}
		return false
	}
	got := parseGetValue(r.Output)
	for _, w := range need {
		v, ok := got[normSx(w)]
		if !ok {
			if os.Getenv("GVC_DEBUG") != "" {
				fmt.Println("model value missing for", w, "got", got)
			}
			return false
		}
		m.vals[w] = v
		m.pins = append(m.pins, app("=", w, v))
	}
	return true
}

// askStr: value of a string term, small and printable when the counterexample allows it.
func (m *modelSession) askStr(t string) (string, bool) {
	if _, done := m.vals[t]; !done {
		m.prefer(fmt.Sprintf("(and (<= 1 (str.len %s)) (<= (str.len %s) 2) (str.in_re %s (re.+ (re.range \"a\" \"z\"))))", t, t, t))
	}
	m.prefer(fmt.Sprintf("(and (<= (str.len %s) 3) (str.in_re %s (re.* (re.range \"a\" \"z\"))))", t, t))
	if !m.ask([]string{t}) {
		return "", false
	}
	return smtStr(m.vals[t])
}

// strSlice: the elements of a []string value.
func (m *modelSession) strSlice(term, mem string, maxLen int64) ([]string, bool) {
	wl := app("s-len", term)
	m.prefer(fmt.Sprintf("(<= (s-len %s) 2)", term))
	if !m.ask([]string{wl}) {
		return nil, false
	}
	n, _ := smtInt(m.vals[wl])
	if n < 0 || n > maxLen || (n > 0 && mem == "") {
		return nil, false
	}
	out := []string{}
	for k := int64(0); k < n; k++ {
		t := fmt.Sprintf("(select (select %s (s-arr %s)) (+ (s-off %s) %d))", mem, term, term, k)
		s, ok := m.askStr(t)
		if !ok {
			return nil, false
		}
		out = append(out, s)
	}
	return out, true
}

// prefer adds a constraint if the goal's counterexample survives it (small-model preference).
func (m *modelSession) prefer(c string) {
	m.n++
	q := m.res.Ctx.QueryExtraOpt(m.g, append(append([]string{}, m.pins...), c), nil, m.qo)
	r, _ := race(q, m.o.Workdir, fmt.Sprintf("%s_pref%d", m.g.Name, m.n), m.o.Timeout, false)
	if r.Status == "sat" {
		m.pins = append(m.pins, c)
	}
}

func normSx(s string) string {
	xs := parseSexprs(s)
	if len(xs) == 1 {
		return xs[0].String()
	}
	return s
}

func smtInt(s string) (int64, bool) {
	s = strings.TrimSpace(s)
	neg := false
	if strings.HasPrefix(s, "(-") {
		neg = true
		s = strings.TrimSpace(strings.TrimSuffix(strings.TrimPrefix(s, "(-"), ")"))
	}
	n, err := strconv.ParseInt(s, 10, 64)
	if err != nil {
		// MinInt64
		if neg && s == "9223372036854775808" {
			return -9223372036854775808, true
		}
		return 0, false
	}
	if neg {
		n = -n
	}
	return n, true
}

func smtBV(s string) (int64, bool) {
	s = strings.TrimSpace(s)
	if strings.HasPrefix(s, "#x") {
		n, err := strconv.ParseInt(s[2:], 16, 64)
		return n, err == nil
	}
	if strings.HasPrefix(s, "#b") {
		n, err := strconv.ParseInt(s[2:], 2, 64)
		return n, err == nil
	}
	return 0, false
}

var uEsc = regexp.MustCompile(`\\u\{([0-9a-fA-F]+)\}`)

func smtStr(s string) (string, bool) {
	s = strings.TrimSpace(s)
	if len(s) < 2 || s[0] != '"' {
		return "", false
	}
	body := strings.ReplaceAll(s[1:len(s)-1], `""`, `"`)
	ok := true
	body = uEsc.ReplaceAllStringFunc(body, func(m string) string {
		h := uEsc.FindStringSubmatch(m)[1]
		n, _ := strconv.ParseInt(h, 16, 32)
		if n > 255 {
			ok = false
			return "?"
		}
		return string([]byte{byte(n)})
	})
	return body, ok
}

func parseVal(s string) ValDesc {
	xs := parseSexprs(s)
	if len(xs) != 1 {
		return ValDesc{Kind: "unknown", Raw: s}
	}
	x := xs[0]
	if x.IsAtom {
		if x.Atom == "nilv" {
			return ValDesc{Kind: "nil"}
		}
		return ValDesc{Kind: "unknown", Raw: s}
	}
	head := x.Kids[0].Atom
	arg := ""
	if len(x.Kids) > 1 {
		arg = x.Kids[1].String()
	}
	switch head {
	case "v_int", "v_int32":
		if n, ok := smtInt(arg); ok {
			return ValDesc{Kind: "int", Int: n}
		}
	case "v_str":
		if t, ok := smtStr(arg); ok {
			return ValDesc{Kind: "str", Str: t}
		}
	case "v_bool":
		return ValDesc{Kind: "bool", Bool: arg == "true"}
	case "v_Stack":
		if n, ok := smtInt(arg); ok {
			return ValDesc{Kind: "stack", Ref: n}
		}
	case "v_Cond":
		if n, ok := smtInt(arg); ok {
			return ValDesc{Kind: "cond", Ref: n}
		}
	case "v_cop":
		if n, ok := smtBV(arg); ok {
			return ValDesc{Kind: "cop", Int: n}
		}
	case "v_err":
		return ValDesc{Kind: "err"}
	case "v_other":
		if n, ok := smtInt(arg); ok {
			return ValDesc{Kind: "other", Int: n, Raw: s}
		}
	case "v_anys":
		return ValDesc{Kind: "anys", Raw: arg}
	}
	return ValDesc{Kind: "unknown", Raw: s}
}

func (m *modelSession) entry(name string) string {
	if t, ok := m.res.Entry[name]; ok {
		return t.S
	}
	if t, ok := m.res.X.Entry[name]; ok {
		return t.S
	}
	return ""
}

// stackDesc extracts a stack description for header term hdr (a Slice term).
func (m *modelSession) stackDesc(hdr string, ref int64, depth int) (*StackDesc, bool) {
	mem := m.entry("Mem_Val")
	d := &StackDesc{Ref: ref, Typ: 4, HdrLen: 1, HdrCap: 1}
	wl, wc := app("s-len", hdr), app("s-cap", hdr)
	m.prefer(fmt.Sprintf("(and (<= (s-len %s) 6) (<= (s-cap %s) 8))", hdr, hdr))
	if !m.ask([]string{wl, wc}) {
		dbg()
		return nil, false
	}
	d.HdrLen, _ = smtInt(m.vals[wl])
	d.HdrCap, _ = smtInt(m.vals[wc])
	if d.HdrLen < 1 || d.HdrLen > 64 || d.HdrCap > 1<<16 {
		if os.Getenv("GVC_DEBUG") != "" {
			fmt.Println("stackDesc: unsuitable header", d.HdrLen, d.HdrCap)
		}
		dbg()
		return nil, false
	}
	if mem == "" {
		return d, true
	}
	cfg := app("cfgp_of", app("sslot", mem, hdr, "0"))
	fields := map[string]string{}
	for _, f := range []string{"typ", "opt", "cap", "ord", "mtx", "ppf"} {
		if c := m.entry("F_nodeConfig_" + f); c != "" {
			fields[f] = app("select", c, cfg)
		}
	}
	// small-model preferences: no mutex, no push policy, LIFO, no capacity, only defined option bits
	for f, want := range map[string]string{"mtx": "0", "ppf": "0", "ord": "false", "cap": "0"} {
		if w, ok := fields[f]; ok {
			m.prefer(app("=", w, want))
		}
	}
	if w, ok := fields["opt"]; ok {
		m.prefer(fmt.Sprintf("(= (bvand %s #xfc00) #x0000)", w))
		m.prefer(fmt.Sprintf("(= (bvand %s #x0180) #x0000)", w))
	}
	var wants []string
	for _, w := range fields {
		wants = append(wants, w)
	}
	if !m.ask(wants) {
		dbg()
		return nil, false
	}
	if w, ok := fields["typ"]; ok {
		d.Typ, _ = smtBV(m.vals[w])
	}
	if w, ok := fields["opt"]; ok {
		d.Opt, _ = smtBV(m.vals[w])
	}
	if w, ok := fields["cap"]; ok {
		d.Cap, _ = smtInt(m.vals[w])
	}
	if w, ok := fields["ord"]; ok {
		d.Ord = m.vals[w] == "true"
	}
	if w, ok := fields["mtx"]; ok {
		n, _ := smtInt(m.vals[w])
		d.Mutex = n != 0
	}
	if w, ok := fields["ppf"]; ok {
		n, _ := smtInt(m.vals[w])
		d.Ppf = n != 0
	}
	if !m.noClosures(cfg) {
		return nil, false
	}
	for _, f := range []string{"sym", "ljc"} {
		if c := m.entry("F_nodeConfig_" + f); c != "" {
			t := app("select", c, cfg)
			s, ok := m.askStr(t)
			if !ok {
				dbg()
				return nil, false
			}
			if f == "sym" {
				d.Sym = s
			} else {
				d.Ljc = s
			}
		}
	}
	if c := m.entry("F_nodeConfig_enc"); c != "" {
		enc := app("select", c, cfg)
		ms, mstr := m.entry("Mem_Slice"), m.entry("Mem_Str")
		m.prefer(fmt.Sprintf("(<= (s-len %s) 2)", enc))
		if !m.ask([]string{app("s-len", enc)}) {
			dbg()
			return nil, false
		}
		n, _ := smtInt(m.vals[app("s-len", enc)])
		if n > 4 || (n > 0 && (ms == "" || mstr == "")) {
			dbg()
			return nil, false
		}
		for k := int64(0); k < n; k++ {
			inner := fmt.Sprintf("(select (select %s (s-arr %s)) (+ (s-off %s) %d))", ms, enc, enc, k)
			xs, ok := m.strSlice(inner, mstr, 3)
			if !ok {
				dbg()
				return nil, false
			}
			d.Enc = append(d.Enc, xs)
		}
	}
	for k := int64(1); k < d.HdrLen && k <= maxElems; k++ {
		v, ok := m.valDesc(app("sslot", mem, hdr, fmt.Sprint(k)), depth)
		if !ok {
			dbg()
		return nil, false
		}
		d.Elems = append(d.Elems, v)
	}
	if d.HdrLen-1 > maxElems {
		dbg()
		return nil, false
	}
	return d, true
}

func (m *modelSession) condDesc(ref int64, depth int) (*CondDesc, bool) {
	d := &CondDesc{Ref: ref}
	r := fmt.Sprint(ref)
	get := func(comp string) string {
		if c := m.entry(comp); c != "" {
			return app("select", c, r)
		}
		return ""
	}
	if t := get("F_condition_kw"); t != "" {
		m.prefer(fmt.Sprintf("(<= (str.len %s) 3)", t))
		if !m.ask([]string{t}) {
			return nil, false
		}
		s, ok := smtStr(m.vals[t])
		if !ok {
			return nil, false
		}
		d.Kw = s
	}
	d.Op = ValDesc{Kind: "nil"}
	d.Ex = ValDesc{Kind: "nil"}
	if t := get("F_condition_op"); t != "" {
		v, ok := m.opDesc(t)
		if !ok {
			return nil, false
		}
		d.Op = v
	}
	if t := get("F_condition_ex"); t != "" {
		v, ok := m.valDesc(t, depth)
		if !ok {
			return nil, false
		}
		d.Ex = v
	}
	if cfgc := m.entry("F_condition_cfg"); cfgc != "" {
		g := app("select", cfgc, r)
		if oc := m.entry("F_nodeConfig_opt"); oc != "" {
			t := app("select", oc, g)
			if !m.ask([]string{t}) {
				return nil, false
			}
			d.Opt, _ = smtBV(m.vals[t])
		}
		if ec := m.entry("F_nodeConfig_err"); ec != "" {
			t := app("select", ec, g)
			if !m.ask([]string{t}) {
				return nil, false
			}
			d.ErrSet = m.vals[t] != "nilv"
		}
		if !m.noClosures(g) {
			return nil, false
		}
	}
	return d, true
}

// noClosures pins every closure field of configuration record g to nil (the replay builds none).
func (m *modelSession) noClosures(g string) bool {
	for _, f := range []string{"vpf", "rpf", "eqf", "umf", "maf", "evl", "lss", "mfn"} {
		c := m.entry("F_nodeConfig_" + f)
		if c == "" {
			continue
		}
		t := app("select", c, g)
		m.prefer(app("=", t, "0"))
		if !m.ask([]string{t}) {
			return false
		}
		if n, _ := smtInt(m.vals[t]); n != 0 {
			return false
		}
	}
	return true
}

// opDesc describes an Operator value (built-in comparison operator or a user-defined one given by its two texts).
func (m *modelSession) opDesc(term string) (ValDesc, bool) {
	m.prefer(fmt.Sprintf("(or (= %s nilv) ((_ is v_cop) %s))", term, term))
	if !m.ask([]string{term}) {
		return ValDesc{}, false
	}
	v := parseVal(m.vals[term])
	if os.Getenv("GVC_DEBUG") != "" {
		fmt.Println("opDesc:", term, "=", m.vals[term], "kind", v.Kind)
	}
	switch v.Kind {
	case "nil", "cop":
		return v, true
	case "other":
		st, ct := app("ext_Operator_String_0", term), app("ext_Operator_Context_0", term)
		m.prefer(fmt.Sprintf("(and (<= (str.len %s) 2) (<= (str.len %s) 2))", st, ct))
		if !m.ask([]string{st, ct}) {
			return v, false
		}
		s1, ok1 := smtStr(m.vals[st])
		s2, ok2 := smtStr(m.vals[ct])
		if !ok1 || !ok2 {
			return v, false
		}
		v.Kind, v.OpStr, v.OpCtx = "op", s1, s2
		return v, true
	}
	return v, false
}

func (m *modelSession) valDesc(term string, depth int) (ValDesc, bool) {
	m.prefer(fmt.Sprintf("(or (= %s nilv) (and ((_ is v_int) %s) (<= 0 (int_of %s)) (<= (int_of %s) 9)))", term, term, term, term))
	if !m.ask([]string{term}) {
		return ValDesc{}, false
	}
	v := parseVal(m.vals[term])
	switch v.Kind {
	case "stack":
		if v.Ref == 0 {
			return v, true
		}
		if depth <= 0 {
			return v, false
		}
		cs := m.entry("Cell_stack")
		if cs == "" {
			return v, false
		}
		sd, ok := m.stackDesc(app("select", cs, fmt.Sprint(v.Ref)), v.Ref, depth-1)
		if !ok {
			return v, false
		}
		v.Stack = sd
	case "other":
		as, ao := app("aliasStack", term), app("aliasStackOf", term)
		if !m.ask([]string{as, ao}) {
			return v, false
		}
		if m.vals[as] == "true" {
			ref, _ := smtInt(m.vals[ao])
			cs := m.entry("Cell_stack")
			if cs == "" || depth <= 0 {
				return v, false
			}
			sd, ok := m.stackDesc(app("select", cs, fmt.Sprint(ref)), ref, depth-1)
			if !ok {
				return v, false
			}
			v.Kind = "alias"
			v.Ref = ref
			v.Stack = sd
		}
	case "cond":
		if v.Ref == 0 {
			return v, true
		}
		if depth <= 0 {
			return v, false
		}
		cd, ok := m.condDesc(v.Ref, depth-1)
		if !ok {
			return v, false
		}
		v.Cond = cd
	case "str":
	case "anys", "unknown":
		return v, false
	}
	return v, true
}

// concretise turns the model of a failed goal into a witness (inputs only).
func (e *Engine) concretise(res *FuncResult, g *Goal, o runOpts) (*Witness, bool) {
	return e.concretiseOpt(res, g, o, qopt{})
}

func (e *Engine) concretiseOpt(res *FuncResult, g *Goal, o runOpts, qo qopt) (*Witness, bool) {
	m := &modelSession{res: res, g: g, o: o, vals: map[string]string{}, qo: qo}
	w := &Witness{Func: res.Key}
	fn := res.Fn
	for i, p := range fn.Params {
		a := ArgDesc{Name: p.Name(), GoTyp: types.TypeString(p.Type(), func(*types.Package) string { return "" })}
		v := res.Args[i]
		pt := p.Type()
		sv, ok := res.X.specVarOf(v, "witness")
		if !ok {
			dbg()
		return nil, false
		}
		term := sv.T.S
		tk := typeKey(pt)
		switch {
		case tk == "Stack" || tk == "*stack":
			if !m.ask([]string{term}) {
				dbg()
		return nil, false
			}
			ref, _ := smtInt(m.vals[term])
			if ref == 0 {
				a.Nil = true
			} else {
				cs := m.entry("Cell_stack")
				if cs == "" {
					dbg()
		return nil, false
				}
				sd, ok := m.stackDesc(app("select", cs, term), ref, 1)
				if !ok {
					dbg()
		return nil, false
				}
				a.Stack = sd
			}
		case tk == "Condition":
			if !m.ask([]string{term}) {
				dbg()
				return nil, false
			}
			ref, _ := smtInt(m.vals[term])
			if ref == 0 {
				a.Nil = true
			} else {
				cd, ok := m.condDesc(ref, 1)
				if !ok {
					dbg()
					return nil, false
				}
				a.Cond = cd
			}
		case tk == "Operator":
			vd, ok := m.opDesc(term)
			if !ok {
				dbg()
				return nil, false
			}
			a.Val = &vd
		case tk == "stack":
			sd, ok := m.stackDesc(term, -1, 1)
			if !ok {
				dbg()
		return nil, false
			}
			a.Stack = sd
		case sv.T.Sort == SInt && isBasicInt(pt):
			if !m.ask([]string{term}) {
				dbg()
		return nil, false
			}
			n, ok := smtInt(m.vals[term])
			if !ok {
				dbg()
		return nil, false
			}
			a.Lit = fmt.Sprint(n)
		case sv.T.Sort == SBool:
			if !m.ask([]string{term}) {
				dbg()
		return nil, false
			}
			a.Lit = m.vals[term]
		case sv.T.Sort == SStr:
			m.prefer(fmt.Sprintf("(and (= (trimSpace %s) %s) (<= (str.len %s) 4))", term, term, term))
			if !m.ask([]string{term}) {
				dbg()
		return nil, false
			}
			s, ok := smtStr(m.vals[term])
			if !ok {
				dbg()
		return nil, false
			}
			a.Lit = strconv.Quote(s)
		case sv.T.Sort == SBV16 || sv.T.Sort == SBV8:
			if !m.ask([]string{term}) {
				dbg()
		return nil, false
			}
			n, _ := smtBV(m.vals[term])
			a.Lit = fmt.Sprintf("%s(%d)", tk, n)
		case sv.T.Sort == SVal:
			if qo.Shape != "" {
				sh := strings.ReplaceAll(qo.Shape, "%s", term)
				okShape := true
				for _, c := range []string{"Cell_stack", "Mem_Val", "F_nodeConfig_typ", "F_nodeConfig_opt", "F_nodeConfig_sym"} {
					if strings.Contains(sh, "{"+c+"}") {
						ent := m.entry(c)
						if ent == "" {
							okShape = false
						}
						sh = strings.ReplaceAll(sh, "{"+c+"}", ent)
					}
				}
				if okShape {
					m.prefer(sh)
				}
			}
			vd, ok := m.valDesc(term, 1)
			if !ok {
				dbg()
		return nil, false
			}
			a.Val = &vd
		case sv.T.Sort == SSlice && sv.Elem == SVal:
			wl := app("s-len", term)
			if !m.ask([]string{wl}) {
				dbg()
		return nil, false
			}
			n, _ := smtInt(m.vals[wl])
			if n > maxElems {
				dbg()
		return nil, false
			}
			mem := m.entry("Mem_Val")
			a.Slice = []ValDesc{}
			for k := int64(0); k < n; k++ {
				if mem == "" {
					a.Slice = append(a.Slice, ValDesc{Kind: "nil"})
					continue
				}
				vd, ok := m.valDesc(app("sslot", mem, term, fmt.Sprint(k)), 1)
				if !ok {
					dbg()
		return nil, false
				}
				a.Slice = append(a.Slice, vd)
			}
		case sv.T.Sort == SSlice && sv.Elem == SStr:
			xs, ok := m.strSlice(term, m.entry("Mem_Str"), maxElems)
			if !ok {
				dbg()
				return nil, false
			}
			var lits []string
			for _, s := range xs {
				lits = append(lits, strconv.Quote(s))
			}
			a.Lit = "[]string{" + strings.Join(lits, ", ") + "}"
		case sv.T.Sort == SSlice && sv.Elem == SInt:
			wl := app("s-len", term)
			if !m.ask([]string{wl}) {
				dbg()
		return nil, false
			}
			n, _ := smtInt(m.vals[wl])
			if n > maxElems {
				dbg()
		return nil, false
			}
			mem := m.entry("Mem_Int")
			var lits []string
			for k := int64(0); k < n; k++ {
				if mem == "" {
					lits = append(lits, "0")
					continue
				}
				t := fmt.Sprintf("(select (select %s (s-arr %s)) (+ (s-off %s) %d))", mem, term, term, k)
				if !m.ask([]string{t}) {
					dbg()
		return nil, false
				}
				v, _ := smtInt(m.vals[t])
				lits = append(lits, fmt.Sprint(v))
			}
			a.Lit = "[]int{" + strings.Join(lits, ", ") + "}"
		case sv.T.Sort == SSlice && sv.Elem == SBool:
			wl := app("s-len", term)
			if !m.ask([]string{wl}) {
				dbg()
		return nil, false
			}
			n, _ := smtInt(m.vals[wl])
			if n > 2 {
				dbg()
		return nil, false
			}
			mem := m.entry("Mem_Bool")
			var lits []string
			for k := int64(0); k < n; k++ {
				if mem == "" {
					lits = append(lits, "false")
					continue
				}
				t := fmt.Sprintf("(select (select %s (s-arr %s)) (+ (s-off %s) %d))", mem, term, term, k)
				if !m.ask([]string{t}) {
					dbg()
		return nil, false
				}
				lits = append(lits, m.vals[t])
			}
			a.Lit = "[]bool{" + strings.Join(lits, ", ") + "}"
		default:
			dbg()
		return nil, false
		}
		w.Args = append(w.Args, a)
	}
	w.Pins = m.pins
	src, ok := genReplayTest(res, w)
	if !ok {
		dbg()
		return nil, false
	}
	w.GoTest = src
	return w, true
}

func dbg() {
	if os.Getenv("GVC_DEBUG") != "" {
		_, f, l, _ := runtime.Caller(1)
		fmt.Println("witness: gave up at", f, l)
	}
}

func isBasicInt(t types.Type) bool {
	b, ok := t.Underlying().(*types.Basic)
	return ok && b.Info()&types.IsInteger != 0
}

// ---------------------------------------------------------------------
// Go test generation

type gen struct {
	opVals []string
	b     strings.Builder
	n     int
	stack map[int64]string // model ref -> Go variable
}

func (g *gen) tmp(p string) string { g.n++; return fmt.Sprintf("%s%d", p, g.n) }

func (g *gen) mkStack(d *StackDesc) string {
	if v, ok := g.stack[d.Ref]; ok && d.Ref > 0 {
		return v
	}
	var elems []string
	for _, e := range d.Elems {
		elems = append(elems, g.mkVal(e))
	}
	v := g.tmp("s")
	fmt.Fprintf(&g.b, "\t%s := gvcMkStack(%d, %d, %d, %v, %v, %d, []any{%s})\n", v, d.Typ, d.Opt, d.Cap, d.Ord, d.Mutex, d.HdrCap, strings.Join(elems, ", "))
	if d.Ppf {
		fmt.Fprintf(&g.b, "\tgvcCfg(%s).ppf = func(...any) error { return nil }\n", v)
	}
	if d.Sym != "" {
		fmt.Fprintf(&g.b, "\tgvcCfg(%s).sym = %s\n", v, strconv.Quote(d.Sym))
	}
	if d.Ljc != "" {
		fmt.Fprintf(&g.b, "\tgvcCfg(%s).ljc = %s\n", v, strconv.Quote(d.Ljc))
	}
	if len(d.Enc) > 0 {
		var es []string
		for _, e := range d.Enc {
			var xs []string
			for _, s := range e {
				xs = append(xs, strconv.Quote(s))
			}
			es = append(es, "{"+strings.Join(xs, ", ")+"}")
		}
		fmt.Fprintf(&g.b, "\tgvcCfg(%s).enc = [][]string{%s}\n", v, strings.Join(es, ", "))
	}
	if d.Ref > 0 {
		g.stack[d.Ref] = v
		fmt.Fprintf(&g.b, "\tgvcReg[%s] = %d\n", v, d.Ref)
	}
	return v
}

func (g *gen) mkCond(d *CondDesc) string {
	v := g.tmp("c")
	fmt.Fprintf(&g.b, "\t%s := gvcMkCond(%s, %s, %s, %d, %v)\n", v, strconv.Quote(d.Kw), g.mkOp(d.Op), g.mkVal(d.Ex), d.Opt, d.ErrSet)
	fmt.Fprintf(&g.b, "\tgvcCondReg[%s] = %d\n", v, d.Ref)
	return v
}

func (g *gen) mkOp(v ValDesc) string {
	switch v.Kind {
	case "cop":
		return fmt.Sprintf("Operator(ComparisonOperator(%d))", v.Int)
	case "op":
		g.opVals = append(g.opVals, v.Raw)
		return fmt.Sprintf("Operator(gvcOp{%s, %s, %d})", strconv.Quote(v.OpStr), strconv.Quote(v.OpCtx), len(g.opVals)-1)
	}
	return "Operator(nil)"
}

func (g *gen) mkVal(v ValDesc) string {
	switch v.Kind {
	case "op":
		return g.mkOp(v)
	case "cond":
		if v.Cond == nil {
			return "Condition{}"
		}
		return "Condition{" + g.mkCond(v.Cond) + "}"
	case "nil":
		return "nil"
	case "int":
		return fmt.Sprintf("int(%d)", v.Int)
	case "str":
		return strconv.Quote(v.Str)
	case "bool":
		return fmt.Sprint(v.Bool)
	case "cop":
		return fmt.Sprintf("ComparisonOperator(%d)", v.Int)
	case "err":
		return `error(errorf("gvc"))`
	case "stack":
		if v.Stack == nil {
			return "Stack{}"
		}
		return "Stack{" + g.mkStack(v.Stack) + "}"
	case "alias":
		return "gvcAlias(Stack{" + g.mkStack(v.Stack) + "})"
	case "other":
		return fmt.Sprintf("gvcOther{%d}", v.Int)
	}
	return "nil"
}

func genReplayTest(res *FuncResult, w *Witness) (string, bool) {
	g := &gen{stack: map[int64]string{}}
	fn := res.Fn
	sig := fn.Signature
	var callArgs []string
	recvExpr := ""
	var recvVar, recvCond string
	for i, a := range w.Args {
		isRecv := sig.Recv() != nil && i == 0
		var expr string
		switch {
		case a.Stack != nil:
			sv := g.mkStack(a.Stack)
			switch a.GoTyp {
			case "Stack":
				expr = "Stack{" + sv + "}"
			case "*stack":
				expr = sv
			case "stack":
				expr = "(*" + sv + ")"
			}
			if isRecv {
				recvVar = sv
			}
		case a.Cond != nil:
			cv := g.mkCond(a.Cond)
			expr = "Condition{" + cv + "}"
			if isRecv {
				recvCond = cv
			}
		case a.Nil:
			switch a.GoTyp {
			case "Condition":
				expr = "Condition{}"
			case "Stack":
				expr = "Stack{}"
			default:
				expr = "nil"
			}
		case a.Val != nil:
			expr = g.mkVal(*a.Val)
		case a.Slice != nil:
			var xs []string
			for _, v := range a.Slice {
				xs = append(xs, g.mkVal(v))
			}
			expr = "[]any{" + strings.Join(xs, ", ") + "}"
			if sig.Variadic() && i == len(w.Args)-1 {
				expr += "..."
			}
		default:
			expr = a.Lit
			if sig.Variadic() && i == len(w.Args)-1 && strings.HasPrefix(expr, "[]") {
				expr += "..."
			}
		}
		if isRecv {
			recvExpr = expr
		} else {
			callArgs = append(callArgs, expr)
		}
	}
	var call string
	name := fn.Name()
	if sig.Recv() != nil {
		if recvExpr == "nil" {
			recvExpr = "(*stack)(nil)"
		}
		call = fmt.Sprintf("%s.%s(%s)", recvExpr, name, strings.Join(callArgs, ", "))
	} else {
		call = fmt.Sprintf("%s(%s)", name, strings.Join(callArgs, ", "))
	}
	nres := sig.Results().Len()
	var b strings.Builder
	b.WriteString(replayHeader)
	b.WriteString("func TestGvcReplay(t *testing.T) {\n")
	b.WriteString("\tdefer func() {\n\t\tif e := recover(); e != nil {\n\t\t\tfmt.Printf(\"GVC-PANIC: %v\\n\", e)\n\t\t}\n\t}()\n")
	b.WriteString(g.b.String())
	if nres == 0 {
		fmt.Fprintf(&b, "\t%s\n", call)
	} else {
		var rs []string
		for i := 0; i < nres; i++ {
			rs = append(rs, fmt.Sprintf("r%d", i))
		}
		fmt.Fprintf(&b, "\t%s := %s\n", strings.Join(rs, ", "), call)
		for i := 0; i < nres; i++ {
			fmt.Fprintf(&b, "\tfmt.Printf(\"GVC-RES %d %%s\\n\", gvcEnc(r%d))\n", i, i)
		}
	}
	if recvVar != "" {
		fmt.Fprintf(&b, "\tgvcDump(\"recv\", %s)\n", recvVar)
	}
	if recvCond != "" {
		fmt.Fprintf(&b, "\tgvcDumpCond(%s)\n", recvCond)
	}
	b.WriteString("\tfmt.Println(\"GVC-DONE\")\n}\n")
	w.OpVals = g.opVals
	return b.String(), true
}

const replayHeader = `package stackage

import (
	"fmt"
	"strconv"
	"sync"
	"testing"
)

type gvcAlias Stack
type gvcOther struct{ id int }

var gvcReg = map[*stack]int{}
var gvcCondReg = map[*condition]int{}

type gvcOp struct {
	s, c string
	id   int
}

func (o gvcOp) String() string  { return o.s }
func (o gvcOp) Context() string { return o.c }

func gvcMkCond(kw string, op Operator, ex any, opt int, errSet bool) *condition {
	c := initCondition()
	c.kw, c.op, c.ex = kw, op, ex
	c.cfg.opt = cfgFlag(opt)
	if errSet {
		c.cfg.err = errorf("gvc")
	}
	return c
}

func gvcDumpCond(c *condition) {
	fmt.Printf("GVC-CPOST kw %s\n", strconv.Quote(c.kw))
	fmt.Printf("GVC-CPOST op %s\n", gvcEnc(c.op))
	fmt.Printf("GVC-CPOST ex %s\n", gvcEnc(c.ex))
	fmt.Printf("GVC-CPOST opt %d\n", int(c.cfg.opt))
	fmt.Printf("GVC-CPOST err %v\n", c.cfg.err != nil)
}

func gvcCfg(s *stack) *nodeConfig { c, _ := (*s)[0].(*nodeConfig); return c }

func gvcMkStack(typ, opt, capf int, fifo, mtx bool, hdrcap int, elems []any) *stack {
	cfg := new(nodeConfig)
	cfg.log = newLogSystem(sLogDefault)
	cfg.typ = stackType(typ)
	cfg.opt = cfgFlag(opt)
	cfg.cap = capf
	cfg.ord = fifo
	if mtx {
		cfg.mtx = &sync.Mutex{}
	}
	if hdrcap < len(elems)+1 {
		hdrcap = len(elems) + 1
	}
	st := make(stack, 0, hdrcap)
	st = append(st, cfg)
	st = append(st, elems...)
	return &st
}

func gvcEnc(x any) string {
	switch v := x.(type) {
	case nil:
		return "nil"
	case int:
		return "int:" + strconv.Itoa(v)
	case string:
		return "str:" + strconv.Quote(v)
	case bool:
		return "bool:" + strconv.FormatBool(v)
	case Stack:
		if v.stack == nil {
			return "stack:0"
		}
		if id, ok := gvcReg[v.stack]; ok {
			return "stack:" + strconv.Itoa(id)
		}
		return "stack:?"
	case *nodeConfig:
		return "cfg"
	case ComparisonOperator:
		return "cop:" + strconv.Itoa(int(v))
	case gvcOp:
		return "gop:" + strconv.Itoa(v.id)
	case Condition:
		if v.condition == nil {
			return "cond:0"
		}
		if id, ok := gvcCondReg[v.condition]; ok {
			return "cond:" + strconv.Itoa(id)
		}
		return "cond:?"
	case error:
		return "err"
	}
	return fmt.Sprintf("other:%T", x)
}

func gvcDump(label string, s *stack) {
	if s == nil {
		fmt.Printf("GVC-POST %s nil\n", label)
		return
	}
	fmt.Printf("GVC-POST %s len %d\n", label, len(*s))
	for i, e := range *s {
		fmt.Printf("GVC-POST %s elem %d %s\n", label, i, gvcEnc(e))
	}
}

`

func (e *Engine) runGoTest(src string) (string, bool) {
	dir, err := os.MkdirTemp("", "gvc-replay-")
	if err != nil {
		return err.Error(), false
	}
	defer os.RemoveAll(dir)
	tf := filepath.Join(dir, "gvc_replay_test.go")
	os.WriteFile(tf, []byte(src), 0o644)
	ov := map[string]any{"Replace": map[string]string{filepath.Join(e.RepoDir, "gvc_replay_test.go"): tf}}
	ovb, _ := json.Marshal(ov)
	ovf := filepath.Join(dir, "ov.json")
	os.WriteFile(ovf, ovb, 0o644)
	cmd := exec.Command("go", "test", "-overlay", ovf, "-vet=off", "-count=1", "-timeout", "20s", "-v", "-run", "^TestGvcReplay$", ".")
	cmd.Dir = e.RepoDir
	cmd.Env = append(os.Environ(), "GOFLAGS=-mod=mod", "GOPROXY=off", "GOSUMDB=off", "GOTOOLCHAIN=local")
	var out bytes.Buffer
	cmd.Stdout = &out
	cmd.Stderr = &out
	done := make(chan error, 1)
	go func() { done <- cmd.Run() }()
	select {
	case <-done:
	case <-time.After(120 * time.Second):
		cmd.Process.Kill()
		return out.String() + "\n[killed after 120s]", false
	}
	return out.String(), true
}

// runWitness executes the witness on the real package and decides whether the
// failed obligation is confirmed there.
func (e *Engine) runWitness(w *Witness, g *Goal) (string, bool) {
	out, ok := e.runGoTest(w.GoTest)
	if !ok {
		return out, false
	}
	panicked := strings.Contains(out, "GVC-PANIC:") || strings.Contains(out, "panic:") || strings.Contains(out, "fatal error:")
	switch g.Kind {
	case "safety":
		return out, panicked
	}
	if panicked {
		// a panic is a violation of every functional clause as well (not of frame / invariant obligations)
		return out, g.Kind == "post"
	}
	if !strings.Contains(out, "GVC-DONE") {
		return out, false
	}
	return out, false
}

// confirmPost re-checks a failed functional obligation with inputs and observed outputs pinned.
func (e *Engine) confirmPost(res *FuncResult, g *Goal, w *Witness, out string, o runOpts) (bool, string) {
	return e.confirmPostOpt(res, g, w, out, o, false)
}

// allDefAxioms: the defining equations of every recursive spec function (for evaluating concrete executions).
func (e *Engine) allDefAxioms() string {
	var b strings.Builder
	if files, _ := filepath.Glob(filepath.Join(e.VerifDir, "spec", "eval", "*.smt2")); len(files) > 0 {
		sort.Strings(files)
		for _, f := range files {
			if data, err := os.ReadFile(f); err == nil {
				b.Write(data)
				b.WriteString("\n")
			}
		}
	}
	for _, n := range sortedKeys(e.RecDefs) {
		if ax, err := e.defAxiom(n); err == nil {
			b.WriteString(ax + "\n")
		}
	}
	return b.String()
}

// confirmPostOpt: with relaxed set (the obligation was undecided, the candidate came from the quantifier-free
// relaxation) the consistency side is checked on the relaxation and the deciding side - the clause cannot hold
// on the observed execution - on the full query with the recursive definitions available.
func (e *Engine) confirmPostOpt(res *FuncResult, g *Goal, w *Witness, out string, o runOpts, relaxed bool) (bool, string) {
	curOpVals = w.OpVals
	pins := append([]string{}, w.Pins...)
	x := res.X
	// results
	for _, l := range strings.Split(out, "\n") {
		l = strings.TrimSpace(l)
		if strings.HasPrefix(l, "GVC-RES ") {
			f := strings.SplitN(l, " ", 3)
			i, _ := strconv.Atoi(f[1])
			if i >= len(res.Results) {
				continue
			}
			sv, ok := x.specVarOf(res.Results[i], "confirm")
			if !ok {
				return false, "result not representable"
			}
			t, ok := encObserved(f[2], sv.T.Sort)
			if !ok {
				return false, "result not encodable: " + f[2]
			}
			if t != "" {
				pins = append(pins, app("=", sv.T.S, t))
			}
		}
	}
	// post-state of the receiver
	if len(res.Args) > 0 && res.Fn.Signature.Recv() != nil {
		sv, ok := x.specVarOf(res.Args[0], "confirm")
		tk := typeKey(res.Fn.Params[0].Type())
		if ok && (tk == "Stack" || tk == "*stack") {
			cs, okc := res.Exit["Cell_stack"]
			mem, okm := res.Exit["Mem_Val"]
			if !okc {
				cs, okc = res.X.Entry["Cell_stack"]
			}
			if !okm {
				mem, okm = res.X.Entry["Mem_Val"]
			}
			if okc && okm {
				hdr := app("select", cs.S, sv.T.S)
				for _, l := range strings.Split(out, "\n") {
					l = strings.TrimSpace(l)
					if strings.HasPrefix(l, "GVC-POST recv len ") {
						pins = append(pins, app("=", app("s-len", hdr), strings.TrimPrefix(l, "GVC-POST recv len ")))
					} else if strings.HasPrefix(l, "GVC-POST recv elem ") {
						f := strings.SplitN(strings.TrimPrefix(l, "GVC-POST recv elem "), " ", 2)
						if f[1] == "cfg" {
							pins = append(pins, fmt.Sprintf("((_ is v_cfgp) (sslot %s %s %s))", mem.S, hdr, f[0]))
							continue
						}
						t, ok := encObserved(f[1], SVal)
						if !ok {
							return false, "element not encodable: " + f[1]
						}
						if t != "" {
							pins = append(pins, app("=", app("sslot", mem.S, hdr, f[0]), t))
						}
					}
				}
			}
		}
	}
	if len(res.Args) > 0 && res.Fn.Signature.Recv() != nil && typeKey(res.Fn.Params[0].Type()) == "Condition" {
		if sv, ok := x.specVarOf(res.Args[0], "confirm"); ok {
			exitc := func(name string) string {
				if t, ok := res.Exit[name]; ok {
					return t.S
				}
				if t, ok := res.X.Entry[name]; ok {
					return t.S
				}
				return ""
			}
			for _, l := range strings.Split(out, "\n") {
				l = strings.TrimSpace(l)
				if !strings.HasPrefix(l, "GVC-CPOST ") {
					continue
				}
				f := strings.SplitN(strings.TrimPrefix(l, "GVC-CPOST "), " ", 2)
				switch f[0] {
				case "kw":
					if c := exitc("F_condition_kw"); c != "" {
						s, _ := strconv.Unquote(f[1])
						pins = append(pins, app("=", app("select", c, sv.T.S), StrLit(s).S))
					}
				case "op", "ex":
					if c := exitc("F_condition_" + f[0]); c != "" {
						t, ok := encObserved(f[1], SVal)
						if !ok {
							return false, "condition field not encodable: " + f[1]
						}
						if t != "" {
							pins = append(pins, app("=", app("select", c, sv.T.S), t))
						} else if f[1] != "nil" {
							pins = append(pins, app("not", app("=", app("select", c, sv.T.S), "nilv")))
						}
					}
				case "opt":
					if c, g2 := exitc("F_nodeConfig_opt"), exitc("F_condition_cfg"); c != "" && g2 != "" {
						n, _ := strconv.Atoi(f[1])
						pins = append(pins, app("=", app("select", c, app("select", g2, sv.T.S)), fmt.Sprintf("#x%04x", n)))
					}
				}
			}
		}
	}
	confirmMu.Lock()
	defer confirmMu.Unlock()
	queryNoSoft = true // asserted goals and loop invariants are not facts about a concrete execution
	defer func() { queryNoSoft = false }()
	qo1, qo2 := qopt{}, qopt{}
	if relaxed {
		qo1 = qopt{Relaxed: true}
		qo2 = qopt{Defs: e.allDefAxioms()}
	}
	q := res.Ctx.QueryExtraOpt(g, pins, nil, qo1)
	r, _ := race(q, o.Workdir, g.Name+"_confirm", o.Timeout, false)
	if r.Status != "sat" {
		return false, "pinned re-check (inputs and observed outputs fixed, clause negated): " + r.Status
	}
	// the observation must decide the clause: with the same pins the clause itself must be unsatisfiable
	pos := *g
	pos.ExpectSat = true
	q2 := res.Ctx.QueryExtraOpt(&pos, pins, nil, qo2)
	r2, _ := race(q2, o.Workdir, g.Name+"_confirm2", o.Timeout, false)
	if r2.Status == "unsat" && relaxed {
		// vacuity guard: the pinned execution itself must be consistent with the full theory
		triv := *g
		triv.ExpectSat = true
		triv.Body = "true"
		q3 := res.Ctx.QueryExtraOpt(&triv, pins, nil, qo2)
		r3, _ := race(q3, o.Workdir, g.Name+"_confirm3", o.Timeout, false)
		if r3.Status == "unsat" {
			return false, "pinned re-check: the candidate execution contradicts the assumptions of the obligation (candidate discarded)"
		}
	}
	if r2.Status == "unsat" {
		return true, "pinned re-check: clause is false on the observed execution (negation sat, clause unsat)"
	}
	return false, "pinned re-check: the observed execution does not decide the clause (" + r2.Status + ")"
}

var curOpVals []string
var confirmMu sync.Mutex

func encObserved(enc string, sort string) (string, bool) {
	switch {
	case strings.HasPrefix(enc, "gop:"):
		k, _ := strconv.Atoi(enc[4:])
		if k < len(curOpVals) && curOpVals[k] != "" {
			return curOpVals[k], true
		}
		return "", false
	case enc == "nil":
		if sort == SVal {
			return "nilv", true
		}
		return "", true
	case strings.HasPrefix(enc, "int:"):
		n, _ := strconv.ParseInt(enc[4:], 10, 64)
		if sort == SVal {
			return app("v_int", IntLit(n).S), true
		}
		return IntLit(n).S, true
	case strings.HasPrefix(enc, "bool:"):
		if sort == SVal {
			return app("v_bool", enc[5:]), true
		}
		return enc[5:], true
	case strings.HasPrefix(enc, "str:"):
		s, err := strconv.Unquote(enc[4:])
		if err != nil {
			return "", false
		}
		if sort == SVal {
			return app("v_str", StrLit(s).S), true
		}
		return StrLit(s).S, true
	case strings.HasPrefix(enc, "stack:") && enc != "stack:?":
		if sort == SVal {
			return app("v_Stack", enc[6:]), true
		}
		return enc[6:], true
	case strings.HasPrefix(enc, "cop:"):
		n, _ := strconv.Atoi(enc[4:])
		return fmt.Sprintf("(v_cop #x%02x)", n), true
	case strings.HasPrefix(enc, "cond:") && enc != "cond:?":
		if sort == SVal {
			return app("v_Cond", enc[5:]), true
		}
		return enc[5:], true
	case enc == "gop":
		return "", true
	case enc == "err":
		return "", true // non-nil error: identity not pinned
	}
	return "", false
}

func (e *Engine) replayFile(path string) int {
	data, err := os.ReadFile(path)
	if err != nil {
		fmt.Println(err)
		return 2
	}
	var rp struct {
		Obligation string  `json:"obligation"`
		Kind       string  `json:"kind"`
		Witness    *Witness `json:"witness"`
	}
	if err := json.Unmarshal(data, &rp); err != nil {
		fmt.Println(err)
		return 2
	}
	if rp.Witness == nil || rp.Witness.GoTest == "" {
		fmt.Println("replay file carries no concrete witness (no-failing-input-found); obligation:", rp.Obligation)
		return 1
	}
	out, _ := e.runGoTest(rp.Witness.GoTest)
	fmt.Println(out)
	return 0
}
