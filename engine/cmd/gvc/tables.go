package main

import (
	"encoding/json"
	"os"
)

// Tables: reviewed data driving the schema contracts (spec/tables.json).
type Tables struct {
	Mutators     map[string]string            `json:"mutators"`      // method key -> note (declared mutators; everything else must be pure)
	ROExceptions map[string]string            `json:"ro_exceptions"` // methods allowed to write while read-only
	NilResults   map[string]map[string]string `json:"nil_results"`   // method key -> result name -> spec expression on nil receiver
	NilExceptions map[string]string           `json:"nil_exceptions"`
	ROModifies   map[string]ROExtra           `json:"ro_modifies"`
	SafeExclude  map[string]string            `json:"safe_exclude"` // int-parameter methods whose safety is decided under another property
}

type ROExtra struct {
	Modifies string `json:"modifies"`
	Requires string `json:"requires"`
}

func loadTables(path string) (*Tables, error) {
	t := &Tables{}
	data, err := os.ReadFile(path)
	if err != nil {
		if os.IsNotExist(err) {
			return t, nil
		}
		return nil, err
	}
	if err := json.Unmarshal(data, t); err != nil {
		return nil, err
	}
	return t, nil
}
