package main

import (
	"sync"
	"bufio"
	"encoding/json"
	"fmt"
	"os"
	"path/filepath"
	"sort"
	"strconv"
	"strings"
	"time"
)

type knownFinding struct {
	Prop       string
	Obligation string
	What       string
}

func loadKnownFindings(path string) ([]knownFinding, error) {
	f, err := os.Open(path)
	if err != nil {
		if os.IsNotExist(err) {
			return nil, nil
		}
		return nil, err
	}
	defer f.Close()
	var out []knownFinding
	sc := bufio.NewScanner(f)
	for sc.Scan() {
		l := strings.TrimSpace(sc.Text())
		if !strings.HasPrefix(l, "finding:") {
			continue // comments and "fixed:" entries suppress nothing
		}
		kf := knownFinding{}
		rest := strings.TrimSpace(strings.TrimPrefix(l, "finding:"))
		for _, fld := range strings.Fields(rest) {
			if strings.HasPrefix(fld, "property=") {
				kf.Prop = strings.TrimPrefix(fld, "property=")
			} else if strings.HasPrefix(fld, "obligation=") {
				kf.Obligation = strings.TrimPrefix(fld, "obligation=")
			}
		}
		if i := strings.Index(rest, "what="); i >= 0 {
			kf.What = strings.TrimSpace(rest[i+5:])
		}
		if kf.Obligation != "" {
			out = append(out, kf)
		}
	}
	return out, nil
}

// goalRelevant decides whether a goal counts for a property.
func goalRelevant(g *Goal, prop string, fnMentions bool) bool {
	if len(g.Tags) == 0 {
		return true
	}
	if goalHasTag(g, prop) {
		return true
	}
	if !fnMentions {
		// pure dependency: its whole contract must hold, except safety obligations of other properties
		return g.Kind != "safety"
	}
	return false
}

type checkSummary struct {
	Functions   []string
	Obligations int
	Discharged  int
	ByKind      map[string]int
	BySolver    map[string]int
	SolverSecs  float64
	MaxSecs     float64
	Havocs      []string
	Assumed     []string
	Samples     []map[string]string
}

func (e *Engine) contractsFor(prop string) map[string]*Contract {
	out := map[string]*Contract{}
	for k, c := range e.Contracts {
		if c.Assumed || c.Inline {
			continue
		}
		if contractMentions(c, prop) {
			out[k] = c
		}
	}
	for k, c := range e.schemaContracts(prop) {
		// the schema contract is verified on its own (its frame is "nothing"), next to any hand-written contract
		c.FnKey = k
		if _, dup := out[k]; dup {
			out[k+"@schema-"+prop] = c
		} else {
			out[k] = c
		}
	}
	return out
}

func mergeContracts(a, b *Contract) *Contract {
	m := *a
	m.Requires = append(append([]*Clause{}, a.Requires...), b.Requires...)
	m.Ensures = append(append([]*Clause{}, a.Ensures...), b.Ensures...)
	m.Tags = append(append([]string{}, a.Tags...), b.Tags...)
	m.SafetyTags = append(append([]string{}, a.SafetyTags...), b.SafetyTags...)
	m.Lets = append(append([]*LetDef{}, a.Lets...), b.Lets...)
	m.HasBody = true
	if len(a.Modifies) == 0 {
		m.Modifies = b.Modifies
	}
	return &m
}

func (e *Engine) checkProperty(prop string, o runOpts) int {
	start := time.Now()
	seed, _ := strconv.Atoi(os.Getenv("VERIF_SEED"))
	kfs, err := loadKnownFindings(filepath.Join(e.VerifDir, "known_findings.txt"))
	if err != nil {
		fmt.Println("gvc: broken:", err)
		return 2
	}
	todo := e.contractsFor(prop)
	if len(todo) == 0 {
		fmt.Printf("gvc: broken: no contract mentions property %s\n", prop)
		return 2
	}
	mentions := map[string]bool{}
	for k := range todo {
		mentions[k] = true
	}
	done := map[string]*FuncResult{}
	// build VCs, following used contracts transitively
	queue := sortedKeys(todo)
	for len(queue) > 0 {
		k := queue[0]
		queue = queue[1:]
		if _, ok := done[k]; ok {
			continue
		}
		con := todo[k]
		if con == nil {
			con = e.Contracts[k]
		}
		t0 := time.Now()
		res := e.buildVCFix(k, con, o)
		if os.Getenv("GVC_SLOW") != "" && time.Since(t0).Seconds() > 2 {
			fmt.Printf("slow-build: %-50s %.1fs goals=%d auto=%d\n", k, time.Since(t0).Seconds(), len(res.Goals), res.AutoProved)
		}
		done[k] = res
		for _, u := range res.UsedCon {
			if c := e.Contracts[u]; c != nil && !c.Assumed && !(c.NoFrame && len(c.Ensures) == 0) {
				if _, ok := done[u]; !ok {
					queue = append(queue, u)
				}
			}
		}
	}
	for i, l := range e.Lemmas {
		for _, t := range l.Tags {
			if t == prop {
				r := e.lemmaResult(i)
				done[r.Key] = r
			}
		}
	}
	// discharge relevant goals
	type job struct {
		res *FuncResult
		g   *Goal
	}
	var jobs, jobsPre []job
	broken := []string{}
	for _, k := range sortedKeys(done) {
		res := done[k]
		if res.Err != "" {
			if strings.Contains(res.Err, "contract error") && strings.Contains(res.Err, "invariant") {
				// the changed code no longer matches the loop contract: the invariant obligations cannot be established
				g := &Goal{Name: k + "#inv-init#unresolvable", Func: k, Kind: "inv-init", Status: "unknown", Text: "loop invariant cannot be stated against the current code: " + res.Err, Output: res.Err}
				res.Goals = []*Goal{g}
				res.Err = ""
				jobsPre = append(jobsPre, job{res, g})
				continue
			}
			broken = append(broken, k+": "+res.Err)
			continue
		}
		for _, g := range res.Goals {
			if goalRelevant(g, prop, mentions[k]) {
				jobs = append(jobs, job{res, g})
			}
		}
	}
	if len(broken) > 0 {
		for _, b := range broken {
			fmt.Println("gvc: broken:", b)
		}
		return 2
	}
	byCtx := map[*Ctx][]*Goal{}
	defer func() { _ = jobsPre }()
	for _, j := range jobs {
		byCtx[j.res.Ctx] = append(byCtx[j.res.Ctx], j.g)
	}
	// run all contexts concurrently under one worker budget
	sem := make(chan struct{}, o.Par)
	donec := make(chan struct{})
	n := 0
	for c, gs := range byCtx {
		for _, g := range gs {
			n++
			go func(c *Ctx, g *Goal) {
				sem <- struct{}{}
				discharge(c, []*Goal{g}, dischargeOpts{Timeout: o.Timeout, All: o.All, Workdir: o.Workdir, Par: 1})
				<-sem
				donec <- struct{}{}
			}(c, g)
		}
	}
	for i := 0; i < n; i++ {
		<-donec
	}
	// second chance for undecided goals: alone, with a longer timeout (avoids load-induced timeouts)
	{
		rsem := make(chan struct{}, 3)
		rdone := make(chan struct{})
		rn := 0
		for c, gs := range byCtx {
			for _, g := range gs {
				if g.Status == "unknown" && !g.ExpectSat && matchKnown(kfs, prop, g.Name) == nil {
					rn++
					go func(c *Ctx, g *Goal) {
						rsem <- struct{}{}
						t0 := time.Now()
						discharge(c, []*Goal{g}, dischargeOpts{Timeout: 3 * o.Timeout, All: o.All, Workdir: o.Workdir, Par: 1, Split: true, SplitTimeout: o.Timeout})
						g.Retried = true
						if os.Getenv("GVC_SLOW") != "" {
							fmt.Printf("retried: %-70s %s %.1fs\n", g.Name, g.Status, time.Since(t0).Seconds())
						}
						<-rsem
						rdone <- struct{}{}
					}(c, g)
				}
			}
		}
		for i := 0; i < rn; i++ {
			<-rdone
		}
	}
	if os.Getenv("GVC_SLOW") != "" {
		for _, j := range jobs {
			if j.g.Secs > 1.5 {
				fmt.Printf("slow: %-70s %5.1fs %s %s (in %s)\n", j.g.Name, j.g.Secs, j.g.Status, j.g.Solver, j.res.Key)
			}
		}
	}
	// summarise
	sum := checkSummary{ByKind: map[string]int{}, BySolver: map[string]int{}}
	sum.Functions = sortedKeys(done)
	havocSeen := map[string]bool{}
	assumedUsed := map[string]bool{}
	for _, k := range sum.Functions {
		for _, h := range done[k].Havocs {
			if !havocSeen[h] {
				havocSeen[h] = true
				sum.Havocs = append(sum.Havocs, h)
			}
		}
		for _, a := range done[k].EngineAssumed {
			assumedUsed["engine: "+a] = true
		}
		for _, u := range done[k].UsedCon {
			if c := e.Contracts[u]; c != nil && c.Assumed {
				assumedUsed[u+": "+c.Trusted] = true
			}
		}
	}
	sum.Assumed = sortedKeys(assumedUsed)
	violations := 0
	known := 0
	brokenGoals := 0
	var lines []string
	jobs = append(jobs, jobsPre...)
	sort.Slice(jobs, func(i, j int) bool { return jobs[i].g.Name < jobs[j].g.Name })
	for _, j := range jobs {
		g := j.g
		sum.Obligations++
		sum.ByKind[g.Kind]++
		sum.SolverSecs += g.Secs
		if g.Secs > sum.MaxSecs {
			sum.MaxSecs = g.Secs
		}
		switch g.Status {
		case "proved":
			sum.Discharged++
			sum.BySolver[g.Solver]++
			if len(sum.Samples) < 6 && g.Kind != "frame" && g.Kind != "safety" {
				sum.Samples = append(sum.Samples, map[string]string{"obligation": g.Name, "kind": g.Kind, "goal": g.Text, "backend": g.Solver})
			}
		case "broken":
			brokenGoals++
			lines = append(lines, fmt.Sprintf("gvc: broken: %s: %s", g.Name, firstLine(g.Output)))
		default:
			// failed or unknown
			if kf := matchKnown(kfs, prop, g.Name); kf != nil {
				known++
				sum.Discharged++ // explained by a listed finding; counted separately below
				lines = append(lines, fmt.Sprintf("KNOWN-FINDING: property=%s %s (%s)", prop, g.Name, kf.What))
				continue
			}
			violations++
			rp := e.writeReplay(prop, j.res, g, o)
			suffix := ""
			if !rp.Confirmed {
				suffix = " no-failing-input-found"
			}
			lines = append(lines, fmt.Sprintf("VIOLATION property=%s replay=%s%s", prop, rp.Path, suffix))
			lines = append(lines, fmt.Sprintf("  obligation %s [%s] %s: %s", g.Name, g.Status, g.Pos, g.Text))
		}
	}
	var bounded map[string]any
	var conformance map[string]any
	if prop == "C12" {
		// alias-blindness lint: a clause claimed for C12 may speak about an element only through isStackLike/stackOf/isCondLike/condOf
		for k, c := range todo {
			if strings.HasSuffix(k, "@safe") {
				continue
			}
			for _, cl := range c.Ensures {
				if !hasTag(cl.Tags, "C12") {
					continue
				}
				for _, bad := range []string{"is_v_Stack", "is_v_Cond", "stack_of(", "cond_of(", "aliasStack", "aliasCond", "is_v_pStack", "is_v_pCond", "is_v_other"} {
					if strings.Contains(cl.Expr, bad) {
						fmt.Printf("gvc: broken: clause %s of %s is tagged C12 but distinguishes native from alias values (%s)\n", cl.Label, k, bad)
						brokenGoals++
					}
				}
			}
		}
	}
	if prop == "C12" || prop == "C05" {
		var au auditResult
		auditName, auditSrc := "converter_audit", auditTest
		if prop == "C12" {
			au = e.auditConverters()
		} else {
			au = e.auditEquality()
			auditName, auditSrc = "equality_audit", audit05Test
		}
		// a failure listed as a finding (obligation=bounded-audit#<text before the first ':'>) is reported as such
		var open []string
		for _, f := range au.Failures {
			key := f
			if i := strings.Index(f, ":"); i > 0 {
				key = f[:i]
			}
			if kf := matchKnown(kfs, prop, "bounded-audit#"+strings.ReplaceAll(key, " ", "_")); kf != nil {
				known++
				lines = append(lines, fmt.Sprintf("KNOWN-FINDING: property=%s bounded audit: %s (%s)", prop, f, kf.What))
				continue
			}
			open = append(open, f)
		}
		au.Failures = open
		bounded = map[string]any{"label": "bounded", "what": au.summary(), "checks": au.Cases, "values": au.Values, "failures": au.Failures}
		fmt.Println("gvc: " + au.summary() + " (bounded stand-in, not counted as proved)")
		if len(au.Failures) > 0 {
			violations++
			outDir := e.VerifDir
			if d := os.Getenv("GVC_OUT"); d != "" {
				outDir = d
			}
			dir := filepath.Join(outDir, "replays", prop)
			os.MkdirAll(dir, 0o755)
			path := filepath.Join(dir, auditName+".json")
			data, _ := json.MarshalIndent(map[string]any{"property": prop, "obligation": "bounded-audit#" + auditName, "failures": au.Failures, "output": truncate(au.Output, 6000), "go_test": auditSrc}, "", " ")
			os.WriteFile(path, data, 0o644)
			lines = append(lines, fmt.Sprintf("VIOLATION property=%s replay=%s", prop, path))
			for _, f := range au.Failures {
				lines = append(lines, "  bounded audit: "+f)
			}
		}
	}
	if o.Tier == "thorough" && violations == 0 && brokenGoals == 0 {
		// conformance replay: proved postconditions evaluated on one real execution per function
		ran, checked, skipped := 0, 0, 0
		var mism []string
		for _, k := range sortedKeys(todo) {
			res := done[k]
			if res == nil || ran >= 40 {
				continue
			}
			cr := e.conformFunction(res, o)
			if cr.Ran && cr.Checked > 0 {
				ran++
				checked += cr.Checked
			} else {
				skipped++
			}
			mism = append(mism, cr.Mismatch...)
		}
		conformance = map[string]any{"functions_executed": ran, "functions_skipped": skipped, "proved_clauses_evaluated_on_real_executions": checked, "mismatches": mism,
			"what": "thorough tier: one input per function from the relaxation of its precondition, real function run, every proved postcondition evaluated on the observed execution (guards the engine's semantics; proves nothing)"}
		fmt.Printf("gvc: conformance replay: %d functions executed, %d proved clauses evaluated, %d mismatches\n", ran, checked, len(mism))
		for _, m := range mism {
			fmt.Println("gvc: broken: model mismatch:", m)
			brokenGoals++
		}
	}
	for _, l := range lines {
		fmt.Println(l)
	}
	wall := time.Since(start).Seconds()
	if brokenGoals == 0 {
		if conformance != nil {
			if bounded == nil {
				bounded = map[string]any{}
			}
			bounded["conformance_replay"] = conformance
		}
		e.writeEvidence(prop, o, seed, sum, known, violations, wall, bounded)
	}
	fmt.Printf("gvc: property %s: %d functions under contract, %d obligations, %d discharged (%d by known finding), %d violations, %.1fs\n",
		prop, len(sum.Functions), sum.Obligations, sum.Discharged, known, violations, wall)
	if brokenGoals > 0 {
		return 2
	}
	if violations > 0 {
		return 1
	}
	return 0
}

func firstLine(s string) string {
	s = strings.TrimSpace(s)
	if i := strings.IndexByte(s, '\n'); i >= 0 {
		return s[:i]
	}
	return s
}

func matchKnown(kfs []knownFinding, prop, goal string) *knownFinding {
	for i := range kfs {
		hasProp := false
		for _, p := range strings.Split(kfs[i].Prop, ",") {
			hasProp = hasProp || p == prop
		}
		if hasProp && kfs[i].Obligation == goal {
			return &kfs[i]
		}
	}
	return nil
}

func hasTag(tags []string, t string) bool {
	for _, x := range tags {
		if x == t {
			return true
		}
	}
	return false
}

func (e *Engine) writeEvidence(prop string, o runOpts, seed int, sum checkSummary, known, violations int, wall float64, bounded map[string]any) {
	trusted := []string{
		"go/types + go/ssa (x/tools v0.29.0) represent the package the Go compiler builds; gvc's SSA instruction semantics (DESIGN 2.2)",
		"solver soundness: z3 4.8.12, z3 5.1.0, cvc5 1.0.3 (raced; thorough tier runs all and fails on disagreement)",
	}
	trusted = append(trusted, e.Trusted...)
	assumptions := []string{
		"partial correctness: termination is not proved",
		"amd64: int is 64 bit; slice lengths/capacities <= 2^56",
		"data-structure invariant assumed on entry and for stacks reached through elements: every non-nil *stack is wf, distinct stacks do not share backing arrays or configuration records (each exported method is proved to preserve wf of the stacks it writes)",
		"A-closure: user closures and user-defined Operator/String methods return and do not modify stackage state",
		"library functions (strings, strconv, unicode, fmt, errors, time, sync, reflect, log) by assumed contracts; unknown externals: results havoced, assumed not to write package state",
		"fresh backing arrays of append are modelled as a copy of the whole old row (cells between len and cap stale instead of zero); guarded by obligation kind 'model' (no slice expression reaches beyond len)",
		"package-level function variables of misc.go (uc, lc, join, ...) keep their initial binding (checked: no store outside init)",
	}
	for _, a := range sum.Assumed {
		assumptions = append(assumptions, "assumed contract (not verified against its body): "+a)
	}
	cov := map[string]any{
		"obligations":            sum.Obligations,
		"discharged":             sum.Discharged,
		"explained_by_known_finding": known,
		"checker_cmd":            fmt.Sprintf("bin/gvc check --prop %s --tier %s", prop, o.Tier),
		"trusted_base":           trusted,
		"functions_under_contract": sum.Functions,
		"obligations_by_kind":    sum.ByKind,
		"discharged_by_backend":  sum.BySolver,
		"solver_seconds_total":   round2(sum.SolverSecs),
		"solver_seconds_max":     round2(sum.MaxSecs),
		"havoc_sites":            sum.Havocs,
		"assumed_contracts":      sum.Assumed,
		"samples":                sum.Samples,
		"per_query_timeout_s":    o.Timeout.Seconds(),
	}
	if bounded != nil {
		if c, ok := bounded["conformance_replay"]; ok {
			cov["conformance_replay"] = c
			delete(bounded, "conformance_replay")
		}
		if len(bounded) > 0 {
			cov["bounded_standins"] = []any{bounded}
		}
	}
	if len(sum.Samples) == 0 {
		cov["samples"] = []map[string]string{{"note": "no non-trivial obligation discharged"}}
	}
	ev := map[string]any{
		"property_id": prop,
		"tier":        o.Tier,
		"seed":        seed,
		"level":       "proof",
		"coverage":    cov,
		"assumptions": assumptions,
		"wall_s":      round2(wall),
		"violations":  violations,
	}
	outDir := e.VerifDir
	if d := os.Getenv("GVC_OUT"); d != "" {
		outDir = d
	}
	os.MkdirAll(filepath.Join(outDir, "evidence"), 0o755)
	data, _ := json.MarshalIndent(ev, "", " ")
	os.WriteFile(filepath.Join(outDir, "evidence", prop+".json"), data, 0o644)
}

func round2(f float64) float64 { return float64(int(f*100+0.5)) / 100 }

type replayInfo struct {
	Path      string
	Confirmed bool
}

func (e *Engine) writeReplay(prop string, res *FuncResult, g *Goal, o runOpts) replayInfo {
	outDir := e.VerifDir
	if d := os.Getenv("GVC_OUT"); d != "" {
		outDir = d
	}
	dir := filepath.Join(outDir, "replays", prop)
	os.MkdirAll(dir, 0o755)
	path := filepath.Join(dir, sanitize(g.Name)+".json")
	rp := map[string]any{
		"property":   prop,
		"obligation": g.Name,
		"function":   g.Func,
		"kind":       g.Kind,
		"clause":     g.Text,
		"position":   g.Pos,
		"status":     g.Status,
		"solver":     g.Solver,
		"solver_output": truncate(g.Output, 4000),
	}
	confirmed := false
	// candidate search for undecided obligations is budgeted per run: functional and safety clauses only
	relaxed := g.Status == "unknown" && !g.ExpectSat && res.X != nil && res.Fn != nil && (g.Kind == "post" || g.Kind == "safety" || g.Kind == "inv-keep" || g.Kind == "hint")
	if relaxed {
		relaxBudgetMu.Lock()
		if relaxBudget <= 0 {
			relaxed = false
			rp["candidate_from"] = "not searched: the per-run budget of candidate searches was used up by earlier obligations"
		} else {
			relaxBudget--
		}
		relaxBudgetMu.Unlock()
	}
	if g.Status == "failed" || relaxed {
		qo := qopt{}
		if relaxed {
			// undecided obligation: look for a candidate input in the quantifier-free relaxation of the
			// query; it counts only if the replay on the real code confirms it
			qo.Relaxed = true
			rp["candidate_from"] = "quantifier-free relaxation of the undecided obligation (not a verifier model; counts only when confirmed on the real code)"
		}
		shapes := []string{""}
		if relaxed {
			// case-directed candidates: one attempt per shape of the interface-typed parameters
			nested := "(cfgp_of (select (select {Mem_Val} (s-arr (select {Cell_stack} (stack_of %s)))) (s-off (select {Cell_stack} (stack_of %s)))))"
			shapes = []string{
				// a nested NOT stack with a word operator and case folding
				"(and ((_ is v_Stack) %s) (not (= (stack_of %s) 0)) (= (select {F_nodeConfig_typ} " + nested + ") #x03) (= (select {F_nodeConfig_sym} " + nested + ") \"\") (not (= (bvand (select {F_nodeConfig_opt} " + nested + ") #x0002) #x0000)))",
				"(and ((_ is v_Stack) %s) (not (= (stack_of %s) 0)) (= (select {F_nodeConfig_typ} " + nested + ") #x03))",
				"(and ((_ is v_Stack) %s) (not (= (stack_of %s) 0)))", "(and ((_ is v_Cond) %s) (not (= (cond_of %s) 0)))",
				"(and ((_ is v_Stack) %s) (= (stack_of %s) 0))", "(and ((_ is v_Cond) %s) (= (cond_of %s) 0))",
				"((_ is v_str) %s)", "((_ is v_int) %s)", ""}
			if !hasValParam(res) {
				shapes = []string{""}
			}
		}
		var tried []string
		var cands []map[string]any
		for _, shape := range shapes {
		qo.Shape = shape
		w, ok := e.concretiseOpt(res, g, o, qo)
		if ok && relaxed {
			sig := w.GoTest[strings.LastIndex(w.GoTest, "func TestGvcReplay"):]
			dup := false
			for _, t := range tried {
				dup = dup || t == sig
			}
			if dup {
				continue
			}
			tried = append(tried, sig)
		}
		if ok {
			rp["witness"] = w
			out, conf := e.runWitness(w, g)
			if relaxed && g.Kind != "post" {
				conf = conf && g.Kind == "safety"
			}
			if !conf && g.Kind == "post" && strings.Contains(out, "GVC-DONE") {
				var why string
				conf, why = e.confirmPostOpt(res, g, w, out, o, relaxed)
				rp["confirmation"] = why
			}
			if !conf && (g.Kind == "inv-keep" || g.Kind == "inv-init" || g.Kind == "hint") && res.Fn != nil && g.Func == fnKey(res.Fn) && strings.Contains(out, "GVC-DONE") {
				// a loop-invariant counterexample: run the function on the model's inputs and
				// evaluate the function's own postconditions on the observed execution
				for _, pg := range res.Goals {
					if pg.Kind != "post" || (pg.Func != fnKey(res.Fn) && pg.Func != res.Key) {
						continue
					}
					ok, why := e.confirmPostOpt(res, pg, w, out, o, relaxed)
					if os.Getenv("GVC_DEBUG") != "" {
						fmt.Println("confirm via post", pg.Name, ok, why)
					}
					if ok {
						conf = true
						rp["confirmation"] = "inputs of the invariant counterexample violate postcondition " + pg.Name + " on the real code: " + why
						break
					}
				}
			}
			rp["replay_output"] = truncate(out, 4000)
			rp["confirmed_on_real_code"] = conf
			confirmed = conf
		}
		if relaxed && ok {
			body := w.GoTest[strings.LastIndex(w.GoTest, "func TestGvcReplay"):]
			if i := strings.Index(body, "}()\n"); i >= 0 {
				body = body[i+4:]
			}
			cands = append(cands, map[string]any{"shape": shape, "test_body": body, "confirmation": rp["confirmation"], "confirmed": confirmed})
		}
		if confirmed {
			break
		}
		}
		if relaxed {
			rp["candidates"] = cands
			rp["candidates_tried"] = len(tried)
		}
	}
	data, _ := json.MarshalIndent(rp, "", " ")
	os.WriteFile(path, data, 0o644)
	return replayInfo{Path: path, Confirmed: confirmed}
}

var relaxBudget = 3
var relaxBudgetMu sync.Mutex

func hasValParam(res *FuncResult) bool {
	if res.Fn == nil {
		return false
	}
	for _, p := range res.Fn.Params {
		if sortOfOrInt(p.Type()) == SVal {
			return true
		}
	}
	return false
}

func truncate(s string, n int) string {
	if len(s) > n {
		return s[:n] + "...[truncated]"
	}
	return s
}
