package main

// Bounded audit for C05 (labelled "bounded", never counted as proved): the
// leaf-level comparison (valuesEqual and the reflect-based helpers behind it)
// is outside the verifier's reach - it is an assumed contract in the
// structure-level proofs - and is compared here with the expected verdict over
// a catalogue of value pairs, in both directions, through Stack.IsEqual and
// Condition.IsEqual: equal pairs built independently, and single point
// mutations at every position of slices / arrays up to length 4, map values,
// map key sets, struct fields, pointers of depth 1-2, kinds.

const audit05Test = `package stackage

import (
	"fmt"
	"testing"
)

type GvcPS struct {
	A int
	B string
}
type GvcPU struct {
	A int
	b int
}
type GvcPV struct {
	a int
	B int
	C []int
}
type GvcPN struct {
	P GvcPS
	L []int
}
type GvcEmbS struct {
	GvcPS
	C bool
}

func TestGvcReplay(t *testing.T) {
	one, two := 1, 2
	p1, p1b, p2 := &one, new(int), &two
	*p1b = 1
	pp1, pp1b := &p1, &p1b
	type pair struct {
		name string
		a, b any
		want bool
	}
	cases := []pair{
		{"int equal", 1, 1, true}, {"int differs", 1, 2, false}, {"string equal", "a", "a", true}, {"string differs", "a", "b", false},
		{"bool differs", true, false, false}, {"float equal", 1.5, 1.5, true}, {"float differs", 1.5, 2.5, false},
		{"int8 vs int", int8(1), 1, false}, {"nil vs int", nil, 1, false}, {"string vs int", "1", 1, false},
		{"pointer equal", p1, p1b, true}, {"pointer differs", p1, p2, false}, {"pointer depth 2 equal", pp1, pp1b, true},
		{"map equal", map[string]int{"a": 1, "b": 2}, map[string]int{"a": 1, "b": 2}, true},
		{"map value differs", map[string]int{"a": 1, "b": 2}, map[string]int{"a": 1, "b": 3}, false},
		{"map key set differs", map[string]int{"a": 1, "b": 2}, map[string]int{"a": 1, "c": 2}, false},
		{"map length differs", map[string]int{"a": 1, "b": 2}, map[string]int{"a": 1}, false},
		{"struct equal", GvcPS{1, "x"}, GvcPS{1, "x"}, true}, {"struct field differs", GvcPS{1, "x"}, GvcPS{1, "y"}, false},
		{"struct with unexported field equal", GvcPU{1, 2}, GvcPU{1, 2}, true}, {"struct with unexported field, exported differs", GvcPU{1, 2}, GvcPU{3, 2}, false},
		{"struct with leading unexported field equal", GvcPV{1, 2, []int{3}}, GvcPV{1, 2, []int{3}}, true},
		{"struct with leading unexported field, later exported field differs", GvcPV{1, 2, []int{3}}, GvcPV{1, 9, []int{3}}, false},
		{"struct with leading unexported field, later slice field differs", GvcPV{1, 2, []int{3}}, GvcPV{1, 2, []int{4}}, false},
		{"pointer to struct differs", &GvcPS{1, "x"}, &GvcPS{1, "y"}, false},
		{"slice of structs differs at 1", []GvcPS{{1, "x"}, {2, "y"}}, []GvcPS{{1, "x"}, {2, "z"}}, false},
		{"map of slices differs", map[string][]int{"a": {1, 2}}, map[string][]int{"a": {1, 3}}, false},
		{"nested struct equal", GvcPN{GvcPS{1, "x"}, []int{1, 2}}, GvcPN{GvcPS{1, "x"}, []int{1, 2}}, true},
		{"nested struct slice differs", GvcPN{GvcPS{1, "x"}, []int{1, 2}}, GvcPN{GvcPS{1, "x"}, []int{1, 3}}, false},
		{"embedded struct equal", GvcEmbS{GvcPS{1, "x"}, true}, GvcEmbS{GvcPS{1, "x"}, true}, true},
		{"embedded struct differs", GvcEmbS{GvcPS{1, "x"}, true}, GvcEmbS{GvcPS{2, "x"}, true}, false},
		{"nested slice equal", [][]int{{1}, {2, 3}}, [][]int{{1}, {2, 3}}, true}, {"nested slice differs", [][]int{{1}, {2, 3}}, [][]int{{1}, {2, 4}}, false},
		{"[]any equal", []any{1, "a"}, []any{1, "a"}, true}, {"[]any differs", []any{1, "a"}, []any{1, "b"}, false},
		{"array equal", [3]int{1, 2, 3}, [3]int{1, 2, 3}, true},
		{"slice length differs", []int{1, 2, 3}, []int{1, 2}, false},
	}
	// nested stackage values: the dispatch inside valuesEqual (assumed in the proofs) to Stack.IsEqual / Condition.IsEqual
	mk := func(leaf any, kw string, op Operator, kind int, swap bool, extra bool) Stack {
		inner := Or()
		if kind == 1 {
			inner = And()
		}
		if swap {
			inner.Push("q", "p")
		} else {
			inner.Push("p", "q")
		}
		inner.Push(Cond(kw, op, leaf))
		if extra {
			inner.Push("more")
		}
		return And().Push("a", inner, Cond("outer", Eq, Not().Push(leaf)))
	}
	base := mk("v", "kw", Eq, 0, false, false)
	cases = append(cases,
		pair{"nested tree equal", base, mk("v", "kw", Eq, 0, false, false), true},
		pair{"nested tree: deep leaf differs", base, mk("w", "kw", Eq, 0, false, false), false},
		pair{"nested tree: keyword differs", base, mk("v", "kx", Eq, 0, false, false), false},
		pair{"nested tree: operator differs", base, mk("v", "kw", Ne, 0, false, false), false},
		pair{"nested tree: kind differs", base, mk("v", "kw", Eq, 1, false, false), false},
		pair{"nested tree: siblings swapped", base, mk("v", "kw", Eq, 0, true, false), false},
		pair{"nested tree: one element more", base, mk("v", "kw", Eq, 0, false, true), false},
		pair{"stack vs condition", Or().Push("p"), Cond("k", Eq, "p"), false},
	)
	// single point mutations at every position of slices / arrays / string slices of length 1..4
	for n := 1; n <= 4; n++ {
		base := make([]int, n)
		for i := range base {
			base[i] = i + 1
		}
		cp := append([]int{}, base...)
		cases = append(cases, pair{fmt.Sprintf("[]int len %d equal", n), base, cp, true})
		for pos := 0; pos < n; pos++ {
			m := append([]int{}, base...)
			m[pos] = 99
			cases = append(cases, pair{fmt.Sprintf("[]int len %d differs at %d", n, pos), base, m, false})
			ms := make([]string, n)
			bs := make([]string, n)
			for i := range ms {
				ms[i], bs[i] = fmt.Sprint(i), fmt.Sprint(i)
			}
			ms[pos] = "x"
			cases = append(cases, pair{fmt.Sprintf("[]string len %d differs at %d", n, pos), bs, ms, false})
		}
	}
	for pos := 0; pos < 3; pos++ {
		a := [3]int{1, 2, 3}
		b := a
		b[pos] = 9
		cases = append(cases, pair{fmt.Sprintf("[3]int differs at %d", pos), a, b, false})
	}
	n, fails := 0, 0
	report := func(format string, a ...any) {
		fails++
		fmt.Printf("GVC-AUDIT-FAIL "+format+"\n", a...)
	}
	for _, c := range cases {
		var verdicts [2]bool
		for dir := 0; dir < 2; dir++ {
			a, b := c.a, c.b
			if dir == 1 {
				a, b = b, a
			}
			func() {
				defer func() {
					if e := recover(); e != nil {
						report("%s (direction %d): panic %v", c.name, dir, e)
					}
				}()
				n++
				err := List().Push("x", a).IsEqual(List().Push("x", b))
				verdicts[dir] = err == nil
				if (err == nil) != c.want {
					report("%s (direction %d): Stack.IsEqual says equal=%v, want %v", c.name, dir, err == nil, c.want)
				}
				if a != nil && b != nil {
					n++
					err2 := Cond("k", Eq, a).IsEqual(Cond("k", Eq, b))
					if (err2 == nil) != c.want {
						report("%s (direction %d): Condition.IsEqual says equal=%v, want %v", c.name, dir, err2 == nil, c.want)
					}
				}
			}()
		}
		n++
		if verdicts[0] != verdicts[1] {
			report("%s: verdict differs between the two directions", c.name)
		}
	}
	fmt.Printf("GVC-AUDIT cases=%d values=%d failures=%d\n", n, len(cases), fails)
}
`

func (e *Engine) auditEquality() auditResult {
	out, _ := e.runGoTest(audit05Test)
	return parseAudit(out, "bounded audit of the leaf-level comparison behind the assumed contract of valuesEqual")
}
