package main

import (
	"fmt"
	"go/token"
	"go/types"
	"strings"

	"golang.org/x/tools/go/ssa"
)

const maxInlineDepth = 40

func (e *Engine) typeByKey(key string) types.Type {
	// resolve a boxTable key to a go/types type of the package (best effort)
	ptr := 0
	k := key
	for strings.HasPrefix(k, "*") {
		ptr++
		k = k[1:]
	}
	var t types.Type
	switch k {
	case "int":
		t = types.Typ[types.Int]
	case "string":
		t = types.Typ[types.String]
	case "bool":
		t = types.Typ[types.Bool]
	case "int32":
		t = types.Typ[types.Int32]
	default:
		if o := e.TPkg.Scope().Lookup(k); o != nil {
			if tn, ok := o.(*types.TypeName); ok {
				t = tn.Type()
			}
		}
	}
	if t == nil {
		return nil
	}
	for ; ptr > 0; ptr-- {
		t = types.NewPointer(t)
	}
	return t
}

var extraDecls []string
var extraSeen = map[string]bool{}

func (e *Engine) declareUF(name, sig string) {
	if extraSeen[name] {
		return
	}
	if _, inPrelude := e.Funcs[name]; inPrelude {
		return
	}
	extraSeen[name] = true
	// sig like "(Int) Bool"
	extraDecls = append(extraDecls, fmt.Sprintf("(declare-fun %s %s)", name, sig))
}

func (x *Exec) doCall(fr *Frame, cc *ssa.CallCommon, pos token.Pos, bc Term, st State, site string) Value {
	var args []Value
	for _, a := range cc.Args {
		args = append(args, fr.value(a))
	}
	fnv := fr.value(cc.Value)
	return x.doCallValues(fr, cc, fnv, args, pos, bc, st, site)
}

func (x *Exec) resultValue(sig *types.Signature, res []Value) Value {
	switch sig.Results().Len() {
	case 0:
		return Value{Kind: VStruct, Typ: sig.Results()}
	case 1:
		if len(res) == 1 {
			return res[0]
		}
		return x.freshValue(sig.Results().At(0).Type(), "res")
	}
	if len(res) != sig.Results().Len() {
		return x.freshValue(sig.Results(), "res")
	}
	return Value{Kind: VStruct, Typ: sig.Results(), Fields: res}
}

func (x *Exec) doCallValues(fr *Frame, cc *ssa.CallCommon, fnv Value, args []Value, pos token.Pos, bc Term, st State, site string) Value {
	sig := cc.Signature()
	if cc.IsInvoke() {
		return x.doInvoke(fr, cc, fnv, args, pos, bc, st, site)
	}
	if fnv.Kind == VFunc && strings.HasPrefix(fnv.Ext, "builtin.") {
		return x.doBuiltin(fr, cc, strings.TrimPrefix(fnv.Ext, "builtin."), args, pos, bc, st, site)
	}
	if fnv.Kind == VFunc && fnv.Ext != "" {
		rs := x.callExternal(fr, fnv.Ext, sig, args, pos, bc, st, site)
		for _, r := range rs {
			x.assumeValueInv(st, bc, r)
		}
		return x.resultValue(sig, rs)
	}
	if fnv.Kind == VFunc && fnv.Fn != nil {
		all := append(append([]Value{}, fnv.Binds...), args...)
		if len(fnv.Binds) > 0 {
			// closure: free variables are bound positionally
			return x.resultValue(sig, x.callFunction(fr, fnv.Fn, args, fnv.Binds, pos, bc, st, site))
		}
		return x.resultValue(sig, x.callFunction(fr, fnv.Fn, all, nil, pos, bc, st, site))
	}
	// dynamic call of a function value
	return x.resultValue(sig, x.callDynamic(fr, sig, fnv, args, pos, bc, st, site))
}

// callFunction: contract, inline or external.
func (x *Exec) callFunction(fr *Frame, callee *ssa.Function, args []Value, free []Value, pos token.Pos, bc Term, st State, site string) []Value {
	key := fnKey(callee)
	if callee.Pkg == x.E.Pkg || callee.Pkg == nil && callee.Blocks != nil && callee.Synthetic != "" {
		// a function verified in mode "spec" sees the "@spec" contract of a callee that has one
		if x.TopCon != nil && x.TopCon.Mode == "spec" {
			if con := x.E.Contracts[key+"@spec"]; con != nil && con.HasBody && !con.Inline {
				x.UsedCon[key+"@spec"] = true
				return x.applyContract(fr, callee, con, args, pos, bc, st, site)
			}
		}
		if con := x.E.Contracts[key]; con != nil && con.HasBody && !con.Inline {
			x.UsedCon[key] = true
			return x.applyContract(fr, callee, con, args, pos, bc, st, site)
		}
	}
	if callee.Blocks == nil || (callee.Pkg != x.E.Pkg && callee.Pkg != nil) {
		rs := x.callExternal(fr, externalKey(callee), callee.Signature, args, pos, bc, st, site)
		for _, r := range rs {
			x.assumeValueInv(st, bc, r)
		}
		return rs
	}
	// recursion / depth
	for _, f := range x.stack {
		if f == callee {
			if con := x.Active[key]; con != nil {
				x.UsedCon[key+" (schema, recursive call)"] = true
				return x.applyContract(fr, callee, con, args, pos, bc, st, site)
			}
			x.havocAll(st, site+": recursive call to "+key+" without contract")
			return x.freshResults(st, bc, callee.Signature)
		}
	}
	if len(x.stack) > maxInlineDepth {
		x.havocAll(st, site+": inline depth exceeded at "+key)
		return x.freshResults(st, bc, callee.Signature)
	}
	x.Inlined[key] = true
	nf := x.newFrame(callee, x.E.Contracts[key])
	for i, fv := range callee.FreeVars {
		if i < len(free) {
			nf.vals[fv] = free[i]
		}
	}
	x.stack = append(x.stack, callee)
	ec, est, res := x.execBody(nf, bc, st, args)
	x.stack = x.stack[:len(x.stack)-1]
	_ = ec
	// the callee returns under bc (panics are separate obligations); adopt its exit state
	for k := range st {
		delete(st, k)
	}
	for k, v := range est {
		st[k] = v
	}
	return res
}

func (x *Exec) freshResults(st State, bc Term, sig *types.Signature) []Value {
	var out []Value
	for i := 0; i < sig.Results().Len(); i++ {
		v := x.freshValue(sig.Results().At(i).Type(), "r")
		x.assumeValueInv(st, bc, v)
		out = append(out, v)
	}
	return out
}

func externalKey(fn *ssa.Function) string {
	s := fn.String()
	return s
}

// contractVars binds parameter and result names of a callee.
func (x *Exec) contractVars(callee *ssa.Function, args []Value, results []Value, site string) map[string]SpecVar {
	vars := map[string]SpecVar{}
	for i, p := range callee.Params {
		if i < len(args) {
			if sv, ok := x.specVarOf(args[i], site); ok {
				vars[p.Name()] = sv
			} else if args[i].Kind == VStruct {
				// struct-valued parameter: fields are addressable as p.f
				if _, sty, ok := x.structOf(p.Type()); ok {
					for fi := 0; fi < sty.NumFields() && fi < len(args[i].Fields); fi++ {
						if fv, ok := x.specVarOf(args[i].Fields[fi], site); ok {
							vars[p.Name()+"."+sty.Field(fi).Name()] = fv
						}
					}
				}
			}
		}
	}
	res := callee.Signature.Results()
	for i := 0; i < res.Len() && i < len(results); i++ {
		sv, ok := x.specVarOf(results[i], site)
		if !ok {
			continue
		}
		if n := res.At(i).Name(); n != "" && n != "_" {
			vars[n] = sv
		}
		vars[fmt.Sprintf("result%d", i)] = sv
		if res.Len() == 1 {
			vars["result"] = sv
		}
	}
	return vars
}

func (x *Exec) bindLets(con *Contract, env *SpecEnv, key string) {
	// lets are evaluated in the pre-state
	pre := env.withState(env.Old)
	pre.Vars = env.Vars
	for _, l := range con.Lets {
		t, err := pre.compile(l.ast)
		if err != nil {
			panic(fmt.Sprintf("contract error: %s let %s: %v", key, l.Name, err))
		}
		x.autoUnfold(t.S, 2)
		t = x.C.Def("let_"+l.Name, t)
		env.Vars[l.Name] = SpecVar{T: t}
	}
}

func (x *Exec) applyContract(fr *Frame, callee *ssa.Function, con *Contract, args []Value, pos token.Pos, bc Term, st State, site string) []Value {
	key := fnKey(callee)
	// copy-in / copy-out: a pointer to a scalar field, element, package variable or non-escaping local passed where the callee's contract speaks
	// about a scalar cell (Cell_T[p]).  The current field value is copied into a fresh cell, the contract is
	// applied to that cell, and the cell's final value is written back to the field.  Sound because the callee
	// reaches the location only through this pointer (its own frame obligation covers Cell_T and nothing in
	// the field's component).
	type cio struct {
		addr *Addr
		cell *Addr
	}
	var cios []cio
	for i, p := range callee.Params {
		if i >= len(args) || args[i].Kind != VAddr || args[i].A.Kind == ACell {
			continue
		}
		pt, ok := p.Type().Underlying().(*types.Pointer)
		if !ok {
			continue
		}
		if _, _, isStruct := x.structOf(pt.Elem()); isStruct {
			continue
		}
		cc := cellComp(pt.Elem())
		if _, ok := x.E.CompSorts[cc]; !ok {
			continue
		}
		ref := x.freshRef(st, "cin")
		cell := &Addr{Kind: ACell, Comp: cc, Ref: ref, Typ: pt.Elem()}
		x.storeAddr(st, cell, x.loadAddr(st, args[i].A))
		cios = append(cios, cio{args[i].A, cell})
		nargs := append([]Value{}, args...)
		nargs[i] = Value{Kind: VAddr, A: cell, Typ: args[i].Typ}
		args = nargs
	}
	if len(cios) > 0 {
		defer func() {
			for _, c := range cios {
				x.storeAddr(st, c.addr, x.loadAddr(st, c.cell))
			}
		}()
	}
	pre := st.clone()
	// requires
	vars := x.contractVars(callee, args, nil, site)
	savedPC := x.curPC
	x.curPC = bc
	defer func() { x.curPC = savedPC }()
	env := x.specEnv(pre, pre, vars)
	x.bindLets(con, env, key)
	for _, cl := range con.Requires {
		t, err := env.compileBool(cl.ast)
		if err != nil {
			panic(fmt.Sprintf("contract error: %s requires %s: %v", key, cl.Label, err))
		}
		x.oblige(fnKey(fr.fn), "call-pre", key+"."+cl.Label+"@"+x.posKey(fr.fn, pos), "precondition of "+key+": "+cl.Expr, cl.Tags, x.pos(pos), bc, t)
	}
	// havoc modifies
	if con.NoFrame && len(con.Modifies) == 0 {
		// no frame is promised: the caller forgets the whole heap
		x.havocAll(st, site+": call to "+key+" whose contract promises no frame")
	}
	x.applyModifies(con, env, pre, st, key)
	for _, m := range con.Modifies {
		if !strings.HasPrefix(m.Comp, "G_calls_") && m.Comp != "G_held" {
			x.epochReset(st)
			break
		}
	}
	a0 := x.comp(pre, "alloc")
	na := x.C.Fresh("alloc_c", SInt)
	x.C.Assume(BoolLit(true), T(SBool, app(">=", na.S, a0.S)))
	st["alloc"] = na
	results := x.freshResults(st, bc, callee.Signature)
	vars2 := x.contractVars(callee, args, results, site)
	for k, v := range env.Vars {
		if _, ok := vars2[k]; !ok {
			vars2[k] = v
		}
	}
	env2 := x.specEnv(st, pre, vars2)
	for _, cl := range con.Ensures {
		t, err := env2.compileBool(cl.ast)
		if err != nil {
			panic(fmt.Sprintf("contract error: %s ensures %s: %v", key, cl.Label, err))
		}
		x.autoUnfold(t.S, 2)
		x.C.Assume(bc, t)
	}
	return results
}

// applyModifies havocs exactly the listed targets of st (pre is the state before the call).
func (x *Exec) applyModifies(con *Contract, env *SpecEnv, pre, st State, key string) {
	byComp := map[string][]*ModTarget{}
	for _, m := range con.Modifies {
		if m.Comp == "fresh" {
			// the callee may allocate (and let escape) objects in any component it writes
			w := map[string]bool{}
			if fn := x.E.FnByKey[key]; fn != nil {
				x.compsWritten(fn, nil, map[*ssa.Function]bool{}, w)
			}
			for _, c := range sortedKeys(w) {
				sort, ok := x.E.CompSorts[c]
				if !ok || c == "alloc" {
					continue
				}
				if _, isArr := elemOfArr(sort); !isArr || strings.HasPrefix(c, "G_") {
					continue
				}
				byComp[c] = append(byComp[c], &ModTarget{Comp: c, Idx: "fresh"})
			}
			if w["*map"] {
				for _, c := range x.E.compNames() {
					if strings.HasPrefix(c, "Map_") {
						byComp[c] = append(byComp[c], &ModTarget{Comp: c, Idx: "fresh"})
					}
				}
			}
			continue
		}
		comps := map[string]bool{}
		x.expandModComp(m.Comp, comps)
		for _, c := range sortedKeys(comps) {
			if _, ok := x.E.CompSorts[c]; !ok {
				panic(fmt.Sprintf("contract error: %s modifies unknown component %s", key, c))
			}
			byComp[c] = append(byComp[c], m)
		}
	}
	for _, c := range sortedKeys(byComp) {
		ms := byComp[c]
		if c == "G_held" && con.Mode != "lock" {
			continue
		}
		sort := x.E.CompSorts[c]
		whole := false
		for _, m := range ms {
			if m.Idx == "" {
				whole = true
			}
		}
		el, isArr := elemOfArr(sort)
		if whole || !isArr {
			old := x.comp(pre, c)
			st[c] = x.C.Fresh(c+"_c", sort)
			if c == "G_calls_len" {
				x.C.Assume(BoolLit(true), T(SBool, app(">=", st[c].S, old.S)))
			}
			continue
		}
		cur := x.comp(pre, c)
		hasFresh := false
		for _, m := range ms {
			if m.Idx == "fresh" {
				hasFresh = true
				continue
			}
			idx, err := env.compile(m.ast)
			if err != nil {
				panic(fmt.Sprintf("contract error: %s modifies %s[%s]: %v", key, c, m.Idx, err))
			}
			cur = Store(cur, idx, x.C.Fresh(c+"_at", el))
		}
		if hasFresh {
			n := x.C.Fresh(c+"_c", sort)
			a0 := x.comp(pre, "alloc")
			x.C.Assume(BoolLit(true), T(SBool, fmt.Sprintf("(forall ((q Int)) (=> (< q %s) (= (select %s q) (select %s q))))", a0.S, n.S, cur.S)))
			st[c] = n
		} else {
			st[c] = x.C.Def(c+"_c", cur)
		}
	}
}

// ---------------------------------------------------------------------

func (x *Exec) invokeTargets(cc *ssa.CallCommon) []*ssa.Function {
	var out []*ssa.Function
	iface := cc.Value.Type().Underlying().(*types.Interface)
	for _, key := range sortedKeys(boxTable) {
		ct := x.E.typeByKey(key)
		if ct == nil || !types.Implements(ct, iface) {
			continue
		}
		ms := x.E.Prog.MethodSets.MethodSet(ct)
		sel := ms.Lookup(cc.Method.Pkg(), cc.Method.Name())
		if sel == nil {
			continue
		}
		if fn := x.E.Prog.MethodValue(sel); fn != nil {
			out = append(out, fn)
		}
	}
	return out
}

func (x *Exec) doInvoke(fr *Frame, cc *ssa.CallCommon, recv Value, args []Value, pos token.Pos, bc Term, st State, site string) Value {
	sig := cc.Signature()
	v := x.term(recv, cc.Value.Type(), site)
	x.safety(fr, "nil-invoke", "method call on nil interface value", pos, bc, Not(Eq(v, T(SVal, "nilv"))))
	iface := cc.Value.Type().Underlying().(*types.Interface)
	// uninterpreted result for foreign dynamic types
	mname := "ext_" + sanitize(typeKey(cc.Value.Type())) + "_" + cc.Method.Name()
	var resDefault []Value
	{
		for i := 0; i < sig.Results().Len(); i++ {
			rt := sig.Results().At(i).Type()
			rs := sortOfOrInt(rt)
			argSorts := []string{SVal}
			argTerms := []string{v.S}
			for j, a := range args {
				at := sig.Params().At(j).Type()
				argSorts = append(argSorts, sortOfOrInt(at))
				argTerms = append(argTerms, x.term(a, at, site).S)
			}
			name := fmt.Sprintf("%s_%d", mname, i)
			x.E.declareUF(name, "("+strings.Join(argSorts, " ")+") "+rs)
			rv := VT(x.C.Def("inv", T(rs, app(name, argTerms...))), rt)
			x.assumeValueInv(st, bc, rv)
			resDefault = append(resDefault, rv)
		}
	}
	res := resDefault
	stDefault := st.clone()
	// known implementers
	for _, key := range sortedKeys(boxTable) {
		bi := boxTable[key]
		ct := x.E.typeByKey(key)
		if ct == nil || !types.Implements(ct, iface) {
			continue
		}
		sel := x.E.Prog.MethodSets.MethodSet(ct).Lookup(cc.Method.Pkg(), cc.Method.Name())
		if sel == nil {
			continue
		}
		fn := x.E.Prog.MethodValue(sel)
		if fn == nil {
			continue
		}
		is := x.C.Def("is", isTester(bi.Ctor, v))
		g := And(bc, is)
		st2 := stDefault.clone()
		rcv := x.unboxPayload(T(bi.Payload, app(bi.Acc, v.S)), ct)
		r2 := x.callFunction(fr, fn, append([]Value{rcv}, args...), nil, pos, g, st2, site)
		// merge
		m := x.mergeStates(is, st2, st)
		for k := range st {
			delete(st, k)
		}
		for k, val := range m {
			st[k] = val
		}
		nr := make([]Value, len(res))
		for i := range res {
			if i < len(r2) {
				nr[i] = x.mergeValues(is, r2[i], res[i])
			} else {
				nr[i] = res[i]
			}
		}
		res = nr
	}
	return x.resultValue(sig, res)
}

// callDynamic models a call of an unknown function value (user closure).
// A-closure: it returns, and does not touch stackage state. Its results are
// uninterpreted functions of (function value, first argument, call ordinal);
// the call is appended to the ghost call log.
func (x *Exec) callDynamic(fr *Frame, sig *types.Signature, fnv Value, args []Value, pos token.Pos, bc Term, st State, site string) []Value {
	f := x.term(fnv, fnv.Typ, site)
	x.safety(fr, "nil-func", "call of nil function value", pos, bc, T(SBool, app("not", app("=", f.S, "0"))))
	// first argument as Val (for variadic ...any the first element)
	arg := T(SVal, "nilv")
	if len(args) > 0 {
		a0 := args[0]
		pt := sig.Params().At(0).Type()
		if sig.Variadic() && sig.Params().Len() == 1 {
			if sl, ok := pt.Underlying().(*types.Slice); ok && sortOfOrInt(sl.Elem()) == SVal {
				s := x.term(a0, pt, site)
				mem := x.comp(st, "Mem_Val")
				el := T(SVal, fmt.Sprintf("(select (select %s (s-arr %s)) (s-off %s))", mem.S, s.S, s.S))
				arg = Ite(T(SBool, fmt.Sprintf("(> (s-len %s) 0)", s.S)), el, T(SVal, "nilv"))
			}
		} else if sortOfOrInt(pt) == SVal {
			arg = x.term(a0, pt, site)
		} else if sortOfOrInt(pt) == SInt {
			arg = T(SVal, app("v_int", x.term(a0, pt, site).S))
		}
	}
	if x.TopCon != nil && x.TopCon.Mode == "spec" && sig.Params().Len() == 0 && sig.Results().Len() == 1 && sortOfOrInt(sig.Results().At(0).Type()) == SStr {
		if _, ok := x.E.Funcs["strCallH"]; ok {
			// a String method value obtained by reflection (getStringer): its call is the spec function strCallH
			// (assumed pure; for a native Stack/Condition it is the String method itself)
			ast, err := parseExpr("strCallH(f)")
			if err == nil {
				env := x.specEnv(st, fr.entrySt, map[string]SpecVar{"f": {T: f}})
				if v, err := env.comp(ast); err == nil {
					x.Assumed["dynamic call of a String method value obtained by reflection: modelled by the spec function strCallH (assumed pure)"] = true
					return []Value{VT(x.C.Def("strcall", v.T), sig.Results().At(0).Type())}
				}
			}
		}
	}
	n := x.comp(st, "G_calls_len")
	fnlog := x.comp(st, "G_calls_fn")
	arglog := x.comp(st, "G_calls_arg")
	x.setComp(st, "G_calls_fn", Store(fnlog, n, f))
	x.setComp(st, "G_calls_arg", Store(arglog, n, arg))
	x.setComp(st, "G_calls_len", T(SInt, app("+", n.S, "1")))
	var out []Value
	for i := 0; i < sig.Results().Len(); i++ {
		rt := sig.Results().At(i).Type()
		rs := sortOfOrInt(rt)
		name := fmt.Sprintf("dyn_%s_%d", sortShort(rs), i)
		name = sanitize(name)
		x.E.declareUF(name, "(Int Val Int) "+rs)
		rv := VT(x.C.Def("dyn", T(rs, app(name, f.S, arg.S, n.S))), rt)
		x.assumeValueInv(st, bc, rv)
		out = append(out, rv)
	}
	return out
}

// ---------------------------------------------------------------------
// builtins

func (x *Exec) doBuiltin(fr *Frame, cc *ssa.CallCommon, name string, args []Value, pos token.Pos, bc Term, st State, site string) Value {
	rt := cc.Signature().Results()
	switch name {
	case "len", "cap":
		at := cc.Args[0].Type()
		a := x.term(args[0], at, site)
		switch a.Sort {
		case SSlice:
			acc := "s-len"
			if name == "cap" {
				acc = "s-cap"
			}
			return VT(T(SInt, app(acc, a.S)), types.Typ[types.Int])
		case SStr:
			return VT(T(SInt, app("str.len", a.S)), types.Typ[types.Int])
		case SInt:
			if _, ok := at.Underlying().(*types.Map); ok {
				ml := x.comp(st, "Map_len")
				l := Ite(Eq(a, IntLit(0)), IntLit(0), T(SInt, app("select", ml.S, a.S)))
				l = x.C.Def("maplen", l)
				x.C.Assume(bc, T(SBool, app(">=", l.S, "0")))
				return VT(l, types.Typ[types.Int])
			}
		}
	case "append":
		return x.doAppend(fr, cc, args, pos, bc, st, site)
	case "delete":
		mt := cc.Args[0].Type().Underlying().(*types.Map)
		ks, vs := sortOfOrInt(mt.Key()), sortOfOrInt(mt.Elem())
		base := mapCompBase(ks, vs)
		if _, ok := x.E.CompSorts[base+"_has"]; ok {
			m := x.term(args[0], cc.Args[0].Type(), site)
			k := x.term(args[1], mt.Key(), site)
			has := x.comp(st, base+"_has")
			ml := x.comp(st, "Map_len")
			hrow := T("(Array "+ks+" Bool)", app("select", has.S, m.S))
			was := And(Not(Eq(m, IntLit(0))), T(SBool, app("select", hrow.S, k.S)))
			x.setComp(st, "Map_len", Ite(was, Store(ml, m, T(SInt, app("-", app("select", ml.S, m.S), "1"))), ml))
			x.setComp(st, base+"_has", Ite(was, Store(has, m, T(hrow.Sort, app("store", hrow.S, k.S, "false"))), has))
			return Value{Kind: VStruct, Typ: rt}
		}
	case "ssa:wrapnilchk":
		x.nilCheck(fr, args[0], pos, bc, "wrapnilchk")
		return args[0]
	}
	x.havocAll(st, site+": builtin "+name)
	if rt.Len() == 1 {
		return x.freshValue(rt.At(0).Type(), "bi")
	}
	return x.freshValue(rt, "bi")
}

// doAppend models both runtime behaviours of append(s, t...): in place when
// the capacity suffices, otherwise a fresh backing array (nondeterministic
// capacity). The fresh array is modelled as a copy of the whole old row with
// the same offset; cells between the new length and the new capacity therefore
// hold stale instead of zero values, which is unobservable as long as no slice
// expression reaches beyond len (checked: obligation kind "model" in doSlice).
// The appended operand is read in the pre-state (memmove semantics).
func (x *Exec) doAppend(fr *Frame, cc *ssa.CallCommon, args []Value, pos token.Pos, bc Term, st State, site string) Value {
	st0 := cc.Args[0].Type()
	sl := st0.Underlying().(*types.Slice)
	es := sortOfOrInt(sl.Elem())
	if _, isStr := cc.Args[1].Type().Underlying().(*types.Basic); isStr {
		x.havocAll(st, site+": append(bytes, string...)")
		return x.freshValue(st0, "app")
	}
	s := x.term(args[0], st0, site)
	t := x.term(args[1], cc.Args[1].Type(), site)
	memName := memComp(es)
	mem := x.comp(st, memName)
	n := x.C.Def("app_n", T(SInt, app("s-len", t.S)))
	if k, ok := x.knownLen[t.S]; ok {
		n = IntLit(int64(k))
	}
	newLen := x.C.Def("app_len", T(SInt, fmt.Sprintf("(+ (s-len %s) %s)", s.S, n.S)))
	fits := x.C.Def("app_fits", T(SBool, fmt.Sprintf("(<= %s (s-cap %s))", newLen.S, s.S)))
	srcRow := x.C.Def("app_src", Select(mem, T(SInt, app("s-arr", t.S)), ArrSort(es)))
	dstRow0 := x.C.Def("app_dst", Select(mem, T(SInt, app("s-arr", s.S)), ArrSort(es)))
	var row Term
	if k, ok := x.knownLen[t.S]; ok && k <= 4 {
		row = dstRow0
		for j := 0; j < k; j++ {
			row = Store(row, T(SInt, fmt.Sprintf("(+ (s-off %s) (s-len %s) %d)", s.S, s.S, j)),
				Select(srcRow, T(SInt, fmt.Sprintf("(+ (s-off %s) %d)", t.S, j)), es))
		}
		row = x.C.Def("app_row", row)
	} else {
		row = x.C.Fresh("app_row", ArrSort(es))
		x.C.Assume(BoolLit(true), T(SBool, fmt.Sprintf(
			"(forall ((q Int)) (! (= (select %s q) (ite (and (<= (+ (s-off %s) (s-len %s)) q) (< q (+ (s-off %s) %s))) (select %s (+ (s-off %s) (- q (+ (s-off %s) (s-len %s))))) (select %s q))) :pattern ((select %s q))))",
			row.S, s.S, s.S, s.S, newLen.S, srcRow.S, t.S, s.S, s.S, dstRow0.S, row.S)))
	}
	fa := x.comp(st, "alloc")
	newCap := x.C.Fresh("app_cap", SInt)
	x.C.Assume(BoolLit(true), T(SBool, fmt.Sprintf("(and (>= %s %s) (<= (+ (s-off %s) %s) 72057594037927936))", newCap.S, newLen.S, s.S, newCap.S)))
	arr := x.C.Def("app_arr", Ite(fits, T(SInt, app("s-arr", s.S)), fa))
	res := x.C.Def("app_res", T(SSlice, fmt.Sprintf("(mk-slice %s (s-off %s) %s %s)", arr.S, s.S, newLen.S, Ite(fits, T(SInt, app("s-cap", s.S)), newCap).S)))
	// appending nothing writes nothing (also keeps a nil slice nil)
	isNoop := T(SBool, app("=", n.S, "0"))
	if x.LockHavoc && memName == "Mem_Val" {
		x.lockCheck(st, "Mem_Val", arr)
	}
	x.setComp(st, memName, Ite(isNoop, mem, Store(mem, arr, row)))
	x.setComp(st, "alloc", Ite(fits, fa, T(SInt, app("+", fa.S, "1"))))
	x.epochReset(st)
	x.C.Assume(bc, T(SBool, fmt.Sprintf("(<= (+ (s-off %s) %s) 72057594037927936)", s.S, newLen.S)))
	return VT(res, st0)
}
