; ---------------------------------------------------------------------
; thin model of the reflect API used by the alias converters (assumed; audited by catalogue under C12)
; ---------------------------------------------------------------------
(declare-fun rtypeOf (Val) Val)        ;;@trusted reflect.TypeOf as a function of the value
(declare-fun rvalueOf (Val) RVal)      ;;@trusted reflect.ValueOf as a function of the value
(declare-fun rvValid (RVal) Bool)      ;;@trusted Value.IsValid
(declare-fun rvIsNilPtr (RVal) Bool)   ;;@trusted the Value is a nil pointer
(declare-fun rvElem (RVal) RVal)       ;;@trusted Value.Elem
(declare-fun rvKind (RVal) Int)        ;;@trusted Value.Kind
(declare-fun rvIface (RVal) Val)       ;;@trusted Value.Interface
(declare-fun rvConvert (RVal Val) RVal) ;;@trusted Value.Convert
(declare-fun ext_reflect_Type_Kind_0 (Val) Int)          ;;@trusted Type.Kind
(declare-fun ext_reflect_Type_Elem_0 (Val) Val)          ;;@trusted Type.Elem
(declare-fun ext_reflect_Type_ConvertibleTo_0 (Val Val) Bool) ;;@trusted Type.ConvertibleTo
(assert (forall ((x Val)) (! (= (= (rtypeOf x) nilv) (= x nilv)) :pattern ((rtypeOf x)))))                 ;;@trusted TypeOf(nil) == nil and only then
(assert (forall ((x Val)) (! (=> (not (= x nilv)) (rvValid (rvalueOf x))) :pattern ((rvalueOf x)))))       ;;@trusted ValueOf(non-nil) is valid
(assert (forall ((t Val)) (! (=> (= (ext_reflect_Type_Kind_0 t) 22) (not (= (ext_reflect_Type_Elem_0 t) nilv))) :pattern ((ext_reflect_Type_Elem_0 t))))) ;;@trusted a pointer type has an element type
(assert (forall ((v RVal)) (! (= (rvValid (rvElem v)) (and (rvValid v) (not (rvIsNilPtr v)))) :pattern ((rvElem v)))))  ;;@trusted Elem of a nil pointer is the zero (invalid) Value
(assert (forall ((v RVal) (t Val)) (! (rvValid (rvConvert v t)) :pattern ((rvConvert v t)))))               ;;@trusted Convert yields a valid Value
(assert (forall ((v RVal)) (! (=> (rvValid v) (not (= (rvIface v) nilv))) :pattern ((rvIface v)))))        ;;@trusted Interface of a valid struct value is non-nil (used for struct kinds only)
(assert (forall ((v RVal)) (! (= (rvValid v) (not (= (rvKind v) 0))) :pattern ((rvKind v)))))              ;;@trusted Kind() is Invalid (0) exactly for the zero Value
