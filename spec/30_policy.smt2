; ---------------------------------------------------------------------
; C14: user-supplied closures. A closure call is an uninterpreted function of
; (function value, first argument, ordinal of the call in the ghost call log).
; ---------------------------------------------------------------------
(declare-fun dyn_Val_0 (Int Val Int) Val)     ;;@trusted A-closure: result of a user closure returning error/any (no constraint)
(declare-fun dyn_Str_0 (Int Val Int) String)  ;;@trusted A-closure: result of a user closure returning string (no constraint)
(declare-fun dyn_Bool_0 (Int Val Int) Bool)   ;;@trusted A-closure: result of a user closure returning bool (no constraint)
(declare-fun dyn_Slice_0 (Int Val Int) Slice) ;;@trusted A-closure: result of a user closure returning a slice (no constraint)
(declare-fun dyn_Val_1 (Int Val Int) Val)     ;;@trusted A-closure: second result of a user closure (no constraint)
; policy-gated append: length and number of consultations after offering the first j values,
; provided none of them was rejected (from the property statement)
(define-fun pfull ((cp Int) (p Int)) Bool (and (not (= cp 0)) (= p cp)))
(define-fun-rec alen ((cp Int) (len0 Int) (j Int)) Int
  (ite (<= j 0) len0 (ite (pfull cp (alen cp len0 (- j 1))) (alen cp len0 (- j 1)) (+ (alen cp len0 (- j 1)) 1))))
(define-fun-rec acalls ((cp Int) (len0 Int) (c0 Int) (j Int)) Int
  (ite (<= j 0) c0 (ite (pfull cp (alen cp len0 (- j 1))) (acalls cp len0 c0 (- j 1)) (+ (acalls cp len0 c0 (- j 1)) 1))))
(define-fun pcalled ((cp Int) (len0 Int) (j Int)) Bool (not (pfull cp (alen cp len0 j))))
(define-fun pres ((M (Array Int (Array Int Val))) (x Slice) (f Int) (cp Int) (len0 Int) (c0 Int) (j Int)) Val
  (dyn_Val_0 f (sslot M x j) (acalls cp len0 c0 j)))
