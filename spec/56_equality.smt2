; ---------------------------------------------------------------------
; C05: structural equality of expression trees with an abstract leaf comparison
; (the reflect-based leaf comparison is an assumed contract, audited by catalogue - bounded)
; ---------------------------------------------------------------------
;;@estable allEq seqS ceqS veqS
(declare-fun leafEq (Val Val) Bool) ;;@trusted abstract: verdict of the reflect-based comparison of two values that are not both Stacks / both Conditions (audited by catalogue under C05)
(define-fun capLenEqS ((c1 Int) (c2 Int) (l1 Int) (l2 Int)) Bool (ite (or (not (= c1 0)) (not (= c2 0))) (and (= c1 c2) (= l1 l2)) (= l1 l2)))
(define-fun-rec allEq ((Cell_stack (Array Int Slice)) (Mem_Val (Array Int (Array Int Val))) (F_nodeConfig_opt (Array Int (_ BitVec 16))) (F_nodeConfig_typ (Array Int (_ BitVec 8))) (F_nodeConfig_cap (Array Int Int)) (F_condition_kw (Array Int String)) (F_condition_op (Array Int Val)) (F_condition_ex (Array Int Val)) (hr Slice) (ho Slice) (n Int)) Bool
  ; slots 1..n of the two stack values compare equal pairwise
  (ite (<= n 0) true (and (allEq Cell_stack Mem_Val F_nodeConfig_opt F_nodeConfig_typ F_nodeConfig_cap F_condition_kw F_condition_op F_condition_ex hr ho (- n 1)) (veqS Cell_stack Mem_Val F_nodeConfig_opt F_nodeConfig_typ F_nodeConfig_cap F_condition_kw F_condition_op F_condition_ex (sslot Mem_Val hr n) (sslot Mem_Val ho n)))))
(define-fun-rec seqS ((Cell_stack (Array Int Slice)) (Mem_Val (Array Int (Array Int Val))) (F_nodeConfig_opt (Array Int (_ BitVec 16))) (F_nodeConfig_typ (Array Int (_ BitVec 8))) (F_nodeConfig_cap (Array Int Int)) (F_condition_kw (Array Int String)) (F_condition_op (Array Int Val)) (F_condition_ex (Array Int Val)) (r Int) (o_ref Int)) Bool
  ; two initialised stacks: same instance, or same capacity/length, same kind word and pairwise equal elements
  (or (= r o_ref)
      (let ((hr (select Cell_stack r)) (ho (select Cell_stack o_ref)))
      (let ((gr (scfg Mem_Val hr)) (go (scfg Mem_Val ho)))
        (and (capLenEqS (select F_nodeConfig_cap gr) (select F_nodeConfig_cap go) (s-len hr) (s-len ho))
             (= (foldS (bit (select F_nodeConfig_opt gr) #x0002) (kindWord (select F_nodeConfig_typ gr)))
                (foldS (bit (select F_nodeConfig_opt go) #x0002) (kindWord (select F_nodeConfig_typ go))))
             (allEq Cell_stack Mem_Val F_nodeConfig_opt F_nodeConfig_typ F_nodeConfig_cap F_condition_kw F_condition_op F_condition_ex hr ho (- (s-len hr) 1)))))))
(define-fun-rec ceqS ((Cell_stack (Array Int Slice)) (Mem_Val (Array Int (Array Int Val))) (F_nodeConfig_opt (Array Int (_ BitVec 16))) (F_nodeConfig_typ (Array Int (_ BitVec 8))) (F_nodeConfig_cap (Array Int Int)) (F_condition_kw (Array Int String)) (F_condition_op (Array Int Val)) (F_condition_ex (Array Int Val)) (c Int) (d_ref Int)) Bool
  ; two initialised conditions: same keyword, same operator text and context, equal expressions
  (and (= (select F_condition_kw c) (select F_condition_kw d_ref))
       (= (= (select F_condition_op c) nilv) (= (select F_condition_op d_ref) nilv))
       (= (opStr (select F_condition_op c)) (opStr (select F_condition_op d_ref)))
       (= (opCtx (select F_condition_op c)) (opCtx (select F_condition_op d_ref)))
       (veqS Cell_stack Mem_Val F_nodeConfig_opt F_nodeConfig_typ F_nodeConfig_cap F_condition_kw F_condition_op F_condition_ex (select F_condition_ex c) (select F_condition_ex d_ref))))
(define-fun-rec veqS ((Cell_stack (Array Int Slice)) (Mem_Val (Array Int (Array Int Val))) (F_nodeConfig_opt (Array Int (_ BitVec 16))) (F_nodeConfig_typ (Array Int (_ BitVec 8))) (F_nodeConfig_cap (Array Int Int)) (F_condition_kw (Array Int String)) (F_condition_op (Array Int Val)) (F_condition_ex (Array Int Val)) (x Val) (y Val)) Bool
  ; two values: nil/nil, two initialised stacks, two initialised conditions, otherwise the abstract leaf verdict
  (ite (and (= x nilv) (= y nilv)) true
  (ite (and (isStackLike x) (isStackLike y) (not (= (stackOf x) 0)) (not (= (stackOf y) 0))) (seqS Cell_stack Mem_Val F_nodeConfig_opt F_nodeConfig_typ F_nodeConfig_cap F_condition_kw F_condition_op F_condition_ex (stackOf x) (stackOf y))
  (ite (and (isCondLike x) (isCondLike y) (not (= (condOf x) 0)) (not (= (condOf y) 0))) (ceqS Cell_stack Mem_Val F_nodeConfig_opt F_nodeConfig_typ F_nodeConfig_cap F_condition_kw F_condition_op F_condition_ex (condOf x) (condOf y))
  (leafEq x y)))))
; domain of the comparison theorem: no equality policies anywhere
(define-fun edom ((F_nodeConfig_eqf (Array Int Int))) Bool
  (forall ((g Int)) (! (= (select F_nodeConfig_eqf g) 0) :pattern ((select F_nodeConfig_eqf g)))))
