;;@lemma kind-roundtrip
;;@tags C04
; the label written by Unmarshal (kind word, case-folded on request) selects the same kind in Marshal
;;@statement
(assert (forall ((t (_ BitVec 8)) (b Bool))
  (! (=> (or (= t #x01) (= t #x02) (= t #x03) (= t #x04) (= t #x06))
         (= (kindOfLabel (toUpper (foldS b (kindWord t)))) t))
     :pattern ((foldS b (kindWord t))))))
;;@proof
; by cases on t, from the library facts about the ASCII operator words (spec/eval/60_casefold.smt2, trusted)
(assert (and (= (toLower "AND") "and") (= (toLower "OR") "or") (= (toLower "NOT") "not") (= (toLower "LIST") "list") (= (toLower "BASIC") "basic")
             (= (toUpper "and") "AND") (= (toUpper "or") "OR") (= (toUpper "not") "NOT") (= (toUpper "list") "LIST") (= (toUpper "basic") "BASIC")
             (= (toUpper "AND") "AND") (= (toUpper "OR") "OR") (= (toUpper "NOT") "NOT") (= (toUpper "LIST") "LIST") (= (toUpper "BASIC") "BASIC")))
(assert (forall ((c Int)) (! (=> (and (<= 0 c) (< c 128)) (= (isUpperRune c) (and (<= 65 c) (<= c 90)))) :pattern ((isUpperRune c)))))
(declare-const t0 (_ BitVec 8))
(declare-const b0 Bool)
(assert (or (= t0 #x01) (= t0 #x02) (= t0 #x03) (= t0 #x04) (= t0 #x06)))
(assert (not (= (kindOfLabel (toUpper (foldS b0 (kindWord t0)))) t0)))
