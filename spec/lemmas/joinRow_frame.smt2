;;@lemma joinRow-frame
;;@tags C02
;;@defs joinRow
;;@axiom
; a write outside the joined range does not change the join
;;@statement
(assert (forall ((row (Array Int String)) (j Int) (v String) (off Int) (n Int) (sep String))
  (! (=> (or (< j off) (>= j (+ off n))) (= (joinRow (store row j v) off n sep) (joinRow row off n sep)))
     :pattern ((joinRow (store row j v) off n sep)))))
;;@proof
; induction on n: hypothesis at n-1 for every row, j, v, off, sep; negated claim at n
(declare-const n Int)
(declare-const row0 (Array Int String))
(declare-const j0 Int)
(declare-const v0 String)
(declare-const off0 Int)
(declare-const sep0 String)
(assert (forall ((row (Array Int String)) (j Int) (v String) (off Int) (sep String))
  (! (=> (or (< j off) (>= j (+ off (- n 1)))) (= (joinRow (store row j v) off (- n 1) sep) (joinRow row off (- n 1) sep)))
     :pattern ((joinRow (store row j v) off (- n 1) sep)))))
(assert (or (< j0 off0) (>= j0 (+ off0 n))))
(assert (not (= (joinRow (store row0 j0 v0) off0 n sep0) (joinRow row0 off0 n sep0))))
