;;@lemma allEq-mono
;;@tags C05
;;@defs allEq
;;@axiom
; pairwise equality of the first n slots implies it for every shorter prefix
;;@statement
(assert (forall ((Cell_stack (Array Int Slice)) (Mem_Val (Array Int (Array Int Val))) (F_nodeConfig_opt (Array Int (_ BitVec 16))) (F_nodeConfig_typ (Array Int (_ BitVec 8))) (F_nodeConfig_cap (Array Int Int)) (F_condition_kw (Array Int String)) (F_condition_op (Array Int Val)) (F_condition_ex (Array Int Val)) (hr Slice) (ho Slice) (n Int) (m Int))
  (! (=> (and (allEq Cell_stack Mem_Val F_nodeConfig_opt F_nodeConfig_typ F_nodeConfig_cap F_condition_kw F_condition_op F_condition_ex hr ho n) (<= m n)) (allEq Cell_stack Mem_Val F_nodeConfig_opt F_nodeConfig_typ F_nodeConfig_cap F_condition_kw F_condition_op F_condition_ex hr ho m))
     :pattern ((allEq Cell_stack Mem_Val F_nodeConfig_opt F_nodeConfig_typ F_nodeConfig_cap F_condition_kw F_condition_op F_condition_ex hr ho n) (allEq Cell_stack Mem_Val F_nodeConfig_opt F_nodeConfig_typ F_nodeConfig_cap F_condition_kw F_condition_op F_condition_ex hr ho m)))))
;;@proof
; induction on n: hypothesis at n-1 for every m; negated claim at n
(declare-const Cell_stack0 (Array Int Slice))
(declare-const Mem_Val0 (Array Int (Array Int Val)))
(declare-const F_nodeConfig_opt0 (Array Int (_ BitVec 16)))
(declare-const F_nodeConfig_typ0 (Array Int (_ BitVec 8)))
(declare-const F_nodeConfig_cap0 (Array Int Int))
(declare-const F_condition_kw0 (Array Int String))
(declare-const F_condition_op0 (Array Int Val))
(declare-const F_condition_ex0 (Array Int Val))
(declare-const hr0 Slice)
(declare-const ho0 Slice)
(declare-const n0 Int)
(declare-const m0 Int)
(assert (forall ((m Int)) (=> (and (allEq Cell_stack0 Mem_Val0 F_nodeConfig_opt0 F_nodeConfig_typ0 F_nodeConfig_cap0 F_condition_kw0 F_condition_op0 F_condition_ex0 hr0 ho0 (- n0 1)) (<= m (- n0 1))) (allEq Cell_stack0 Mem_Val0 F_nodeConfig_opt0 F_nodeConfig_typ0 F_nodeConfig_cap0 F_condition_kw0 F_condition_op0 F_condition_ex0 hr0 ho0 m))))
(assert (allEq Cell_stack0 Mem_Val0 F_nodeConfig_opt0 F_nodeConfig_typ0 F_nodeConfig_cap0 F_condition_kw0 F_condition_op0 F_condition_ex0 hr0 ho0 n0))
(assert (<= m0 n0))
(assert (not (allEq Cell_stack0 Mem_Val0 F_nodeConfig_opt0 F_nodeConfig_typ0 F_nodeConfig_cap0 F_condition_kw0 F_condition_op0 F_condition_ex0 hr0 ho0 m0)))
