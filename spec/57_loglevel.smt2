; ---------------------------------------------------------------------
; C18: log levels are a bit-set with 'none' and 'all' shortcuts
; (from the property statement; the name table is whatever the package's logLevelMap holds)
; ---------------------------------------------------------------------
; one SetLogLevel / UnsetLogLevel argument is recognised: a LogLevel constant, a raw integer,
; or a string whose upper-cased form is a key of the name table m
(define-fun lvlOk ((has (Array Int (Array String Bool))) (m Int) (v Val)) Bool
  (or ((_ is v_LogLevel) v) ((_ is v_int) v)
      (and ((_ is v_str) v) (not (= m 0)) (select (select has m) (toUpper (str_of v))))))
; the 16-bit level word such an argument denotes (raw integers are truncated as Go's conversion does)
(define-fun lvlOf ((has (Array Int (Array String Bool))) (val (Array Int (Array String (_ BitVec 16)))) (m Int) (v Val)) (_ BitVec 16)
  (ite ((_ is v_LogLevel) v) (loglevel_of v)
  (ite ((_ is v_int) v) ((_ int2bv 16) (int_of v))
  (ite (and ((_ is v_str) v) (not (= m 0)) (select (select has m) (toUpper (str_of v)))) (select (select val m) (toUpper (str_of v)))
       #x0000))))
; every argument from position i on is recognised
(define-fun-rec lvlAllOk ((has (Array Int (Array String Bool))) (m Int) (row (Array Int Val)) (off Int) (i Int) (n Int)) Bool
  (ite (>= i n) true (and (lvlOk has m (select row (+ off i))) (lvlAllOk has m row off (+ i 1) n))))
; enabling arguments i.. of a batch on the word cur: 'none' (0) clears everything and ends the batch,
; 'all' (0xFFFF) sets everything and ends the batch, any other word is or-ed in
(define-fun-rec lvlSet ((has (Array Int (Array String Bool))) (val (Array Int (Array String (_ BitVec 16)))) (m Int) (row (Array Int Val)) (off Int) (i Int) (n Int) (cur (_ BitVec 16))) (_ BitVec 16)
  (ite (>= i n) cur
  (ite (= (lvlOf has val m (select row (+ off i))) #x0000) #x0000
  (ite (= (lvlOf has val m (select row (+ off i))) #xffff) #xffff
       (lvlSet has val m row off (+ i 1) n (bvor cur (lvlOf has val m (select row (+ off i)))))))))
; disabling arguments i.. of a batch: 'none' is skipped, 'all' clears everything and ends the batch,
; any other word is masked out
(define-fun-rec lvlUnset ((has (Array Int (Array String Bool))) (val (Array Int (Array String (_ BitVec 16)))) (m Int) (row (Array Int Val)) (off Int) (i Int) (n Int) (cur (_ BitVec 16))) (_ BitVec 16)
  (ite (>= i n) cur
  (ite (= (lvlOf has val m (select row (+ off i))) #x0000) (lvlUnset has val m row off (+ i 1) n cur)
  (ite (= (lvlOf has val m (select row (+ off i))) #xffff) #x0000
       (lvlUnset has val m row off (+ i 1) n (bvand cur (bvnot (lvlOf has val m (select row (+ off i))))))))))
; --- LogLevels(): the names of the active levels in ascending bit order, comma-separated
; (ALL / NONE at the two shortcut words); names come from the package's own table nm
(define-fun lvlBit ((i Int)) (_ BitVec 16) (ite (>= i 16) #x0000 (bvshl #x0001 ((_ int2bv 16) i))))
(define-fun lvlSel ((has (Array Int (Array (_ BitVec 16) Bool))) (nm Int) (w (_ BitVec 16)) (i Int)) Bool
  (and (not (= (bvand w (lvlBit i)) #x0000)) (not (= nm 0)) (select (select has nm) (lvlBit i))))
(define-fun-rec lvlCnt ((has (Array Int (Array (_ BitVec 16) Bool))) (nm Int) (w (_ BitVec 16)) (i Int)) Int
  (ite (<= i 0) 0 (+ (lvlCnt has nm w (- i 1)) (ite (lvlSel has nm w (- i 1)) 1 0))))
(define-fun-rec lvlJoin ((has (Array Int (Array (_ BitVec 16) Bool))) (val (Array Int (Array (_ BitVec 16) String))) (nm Int) (w (_ BitVec 16)) (i Int)) String
  (ite (<= i 0) ""
  (ite (lvlSel has nm w (- i 1))
       (ite (= (lvlCnt has nm w (- i 1)) 0) (select (select val nm) (lvlBit (- i 1)))
            (str.++ (lvlJoin has val nm w (- i 1)) "," (select (select val nm) (lvlBit (- i 1)))))
       (lvlJoin has val nm w (- i 1)))))
(define-fun lvlStr ((has (Array Int (Array (_ BitVec 16) Bool))) (val (Array Int (Array (_ BitVec 16) String))) (nm Int) (w (_ BitVec 16))) String
  (ite (= w #xffff) "ALL" (ite (= w #x0000) "NONE" (lvlJoin has val nm w 16))))
