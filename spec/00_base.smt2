; ---------------------------------------------------------------------
; base prelude: machine integers, slices, strings
; every item is a definition unless marked ;;@trusted
; ---------------------------------------------------------------------
(define-fun isInt64 ((x Int)) Bool (and (<= (- 9223372036854775808) x) (<= x 9223372036854775807)))
(define-fun wrap64 ((x Int)) Int
  (ite (> x 9223372036854775807) (- x 18446744073709551616)
  (ite (< x (- 9223372036854775808)) (+ x 18446744073709551616) x)))
(define-fun okslice ((s Slice) (al Int)) Bool
  (and (<= 0 (s-arr s)) (< (s-arr s) al) (<= 0 (s-off s)) (<= 0 (s-len s)) (<= (s-len s) (s-cap s))
       (<= (+ (s-off s) (s-cap s)) 72057594037927936)
       (=> (= (s-arr s) 0) (and (= (s-len s) 0) (= (s-cap s) 0) (= (s-off s) 0)))))
(define-fun okref ((r Int) (al Int)) Bool (and (<= 0 r) (< r al)))
; ---------------------------------------------------------------------
; alias classification (reflect-based converter is an assumed contract, audited under C12)
(declare-fun aliasStack (Val) Bool)       ;;@trusted abstract: dynamic type derives from Stack (or pointer to one) and holds a non-nil embedded pointer
(declare-fun aliasStackOf (Val) Int)      ;;@trusted abstract: the embedded *stack of such a value
(declare-fun aliasCond (Val) Bool)        ;;@trusted abstract: dynamic type derives from Condition and holds a non-nil embedded pointer
(declare-fun aliasCondOf (Val) Int)       ;;@trusted abstract: the embedded *condition of such a value
(assert (forall ((v Val)) (! (=> (aliasStack v) (and (or ((_ is v_other) v) ((_ is v_pStack) v)) (> (aliasStackOf v) 0))) :pattern ((aliasStack v))))) ;;@trusted only foreign types and *Stack convert; result non-nil
(assert (forall ((v Val)) (! (=> (aliasCond v) (and (or ((_ is v_other) v) ((_ is v_pCond) v)) (> (aliasCondOf v) 0) (not (aliasStack v)))) :pattern ((aliasCond v))))) ;;@trusted only foreign types and *Condition convert; a type derives from at most one of the two

; generated type invariant of an interface value: every reference inside it exists
(define-fun okval ((v Val) (al Int)) Bool
  (and (=> ((_ is v_Stack) v) (okref (stack_of v) al))
       (=> ((_ is v_Cond) v) (okref (cond_of v) al))
       (=> ((_ is v_cfgp) v) (okref (cfgp_of v) al))
       (=> ((_ is v_anys) v) (okslice (anys_of v) al))
       (=> ((_ is v_strs) v) (okslice (strs_of v) al))
       (=> ((_ is v_logger) v) (okref (logger_of v) al))
       (=> ((_ is v_stackp) v) (okref (stackp_of v) al))
       (=> ((_ is v_condp) v) (okref (condp_of v) al))
       (=> ((_ is v_pStack) v) (okref (pstack_of v) al))
       (=> ((_ is v_pCond) v) (okref (pcond_of v) al))
       (=> ((_ is v_err) v) (and (< 0 (err_of v)) (< (err_of v) al)))
       (=> ((_ is v_int) v) (isInt64 (int_of v)))
       (=> ((_ is v_other) v) (>= (o_ty v) 100))
       (=> (aliasStack v) (okref (aliasStackOf v) al))
       (=> (aliasCond v) (okref (aliasCondOf v) al))))
; --- strings (library functions: assumed, uninterpreted)
(declare-fun toUpper (String) String)      ;;@trusted strings.ToUpper is a function of its argument
(declare-fun toLower (String) String)      ;;@trusted strings.ToLower is a function of its argument
(declare-fun trimSpace (String) String)    ;;@trusted strings.TrimSpace is a function of its argument
(declare-fun equalFold (String String) Bool) ;;@trusted strings.EqualFold is a function of its arguments
(declare-fun isUpperRune (Int) Bool)       ;;@trusted unicode.IsUpper is a function of its argument
(declare-fun isLowerRune (Int) Bool)       ;;@trusted unicode.IsLower is a function of its argument
(declare-fun itoa (Int) String)            ;;@trusted strconv.Itoa/FormatInt is a function of its argument
(declare-fun utf8enc (Int) String)         ;;@trusted UTF-8 encoding of a rune >= 0x80
(assert (forall ((r Int)) (! (>= (str.len (utf8enc r)) 2) :pattern ((utf8enc r))))) ;;@trusted multi-byte encodings have at least two bytes
(define-fun runeStr ((r Int)) String (ite (and (<= 0 r) (< r 128)) (str.from_code r) (utf8enc r)))
; strings.Join over a row of a []string: elements off..off+n-1 separated by sep
(define-fun-rec joinRow ((row (Array Int String)) (off Int) (n Int) (sep String)) String
  (ite (<= n 0) "" (ite (= n 1) (select row off)
       (str.++ (joinRow row off (- n 1) sep) sep (select row (+ off (- n 1)))))))
(define-fun joinS ((Mem_Str (Array Int (Array Int String))) (s Slice) (sep String)) String
  (joinRow (select Mem_Str (s-arr s)) (s-off s) (s-len s) sep)) ;;@trusted strings.Join(s, sep) is the elements of s in order with sep between neighbours
