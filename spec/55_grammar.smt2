; ---------------------------------------------------------------------
; C02 / C06: the canonical rendering of an expression tree (from the property statement)
; All functions below read the heap only through their arguments (entry-stable).
; Domain: no presentation or validity policies, every nested stack / condition well formed,
; elements are text, int, bool, values with a String method, Conditions and Stacks (see rdom).
; ---------------------------------------------------------------------
;;@estable JR crT CRs SRs SR CRv strCallH ER EX encLF encRF encapS
(declare-fun stringerFn (Val) Int)   ;;@trusted abstract (reflection): the String method value of x, 0 when the dynamic type has none or x is a zero value
(declare-fun mStackString (Int) Int) ;;@trusted abstract: the method value Stack.String bound to a Stack holding *stack r
(declare-fun mCondString (Int) Int)  ;;@trusted abstract: the method value Condition.String bound to a Condition holding *condition c
(declare-fun mKind (Int) Int)
(declare-fun mRecv (Int) Int)
(declare-fun strCallU (Int) String)  ;;@trusted A-closure: calling a user type's String method value returns a function of that value and changes no package state
(assert (forall ((r Int)) (! (and (= (mKind (mStackString r)) 1) (= (mRecv (mStackString r)) r) (not (= (mStackString r) 0))) :pattern ((mStackString r))))) ;;@trusted method values are determined by method and receiver
(assert (forall ((c Int)) (! (and (= (mKind (mCondString c)) 2) (= (mRecv (mCondString c)) c) (not (= (mCondString c) 0))) :pattern ((mCondString c)))))
(assert (forall ((x Val)) (! (and
   (=> (or (= x nilv) ((_ is v_str) x) ((_ is v_int) x) ((_ is v_bool) x) ((_ is v_cfgp) x)) (= (stringerFn x) 0))
   (=> ((_ is v_Stack) x) (= (stringerFn x) (ite (= (stack_of x) 0) 0 (mStackString (stack_of x)))))
   (=> ((_ is v_Cond) x) (= (stringerFn x) (ite (= (cond_of x) 0) 0 (mCondString (cond_of x))))))
   :pattern ((stringerFn x))))) ;;@trusted reflection: nil, string, int, bool have no String method; a native Stack/Condition has its own unless it is the zero value
; text of a primitive (misc.go primitiveStringer); kinds other than string, bool, int are outside the domain
(define-fun primText ((x Val)) String
  (ite ((_ is v_str) x) (str_of x) (ite ((_ is v_bool) x) (ite (bool_of x) "true" "false") (ite ((_ is v_int) x) (itoa (int_of x)) "unsupported_primitive_type"))))
(define-fun isPrimV ((x Val)) Bool (or ((_ is v_str) x) ((_ is v_bool) x) ((_ is v_int) x)))
; separator between the rendered elements of one stack, and the body around the joined elements
(define-fun sepS ((opt (_ BitVec 16)) (oc (_ BitVec 8)) (ot String) (sym String) (ljc String)) String
  (ite (bit opt #x0008) ""
  (ite (= oc #x04) (ite (> (str.len ljc) 0) ljc " ")
  (ite (and (> (str.len sym) 0) (bit opt #x0004)) ot (str.++ "   " ot "   ")))))
(define-fun bodyS ((opt (_ BitVec 16)) (oc (_ BitVec 8)) (ot String) (j String)) String
  (ite (bit opt #x0008) (str.++ (ite (= oc #x04) "" ot) j) j))

(define-fun-rec JR ((Cell_stack (Array Int Slice)) (Mem_Val (Array Int (Array Int Val))) (F_nodeConfig_opt (Array Int (_ BitVec 16))) (F_nodeConfig_typ (Array Int (_ BitVec 8))) (F_nodeConfig_sym (Array Int String)) (F_nodeConfig_ljc (Array Int String)) (F_nodeConfig_enc (Array Int Slice)) (Mem_Slice (Array Int (Array Int Slice))) (Mem_Str (Array Int (Array Int String))) (F_condition_kw (Array Int String)) (F_condition_op (Array Int Val)) (F_condition_ex (Array Int Val)) (F_condition_cfg (Array Int Int)) (h Slice) (n Int) (sep String)) String
  ; the first n elements of stack value h, rendered, empty renderings dropped, joined by sep
  (ite (<= n 0) ""
    (let ((e (ER Cell_stack Mem_Val F_nodeConfig_opt F_nodeConfig_typ F_nodeConfig_sym F_nodeConfig_ljc F_nodeConfig_enc Mem_Slice Mem_Str F_condition_kw F_condition_op F_condition_ex F_condition_cfg (scfg Mem_Val h) (sslot Mem_Val h n))) (p (JR Cell_stack Mem_Val F_nodeConfig_opt F_nodeConfig_typ F_nodeConfig_sym F_nodeConfig_ljc F_nodeConfig_enc Mem_Slice Mem_Str F_condition_kw F_condition_op F_condition_ex F_condition_cfg h (- n 1) sep)))
      (ite (= e "") p (ite (= p "") e (str.++ p sep e))))))
(define-fun-rec crT ((Cell_stack (Array Int Slice)) (Mem_Val (Array Int (Array Int Val))) (F_nodeConfig_opt (Array Int (_ BitVec 16))) (F_nodeConfig_typ (Array Int (_ BitVec 8))) (F_nodeConfig_sym (Array Int String)) (F_nodeConfig_ljc (Array Int String)) (F_nodeConfig_enc (Array Int Slice)) (Mem_Slice (Array Int (Array Int Slice))) (Mem_Str (Array Int (Array Int String))) (F_condition_kw (Array Int String)) (F_condition_op (Array Int Val)) (F_condition_ex (Array Int Val)) (F_condition_cfg (Array Int Int)) (kw String) (op Val) (ex Val) (g Int)) String
  ; a Condition's fields: keyword, operator, expression (in its encapsulation), blank separated unless no-padding, in parentheses on request
  (let ((pad (ite (bit (select F_nodeConfig_opt g) #x0004) "" " "))
        (val (encapS Mem_Slice Mem_Str (select F_nodeConfig_enc g) (EX Cell_stack Mem_Val F_nodeConfig_opt F_nodeConfig_typ F_nodeConfig_sym F_nodeConfig_ljc F_nodeConfig_enc Mem_Slice Mem_Str F_condition_kw F_condition_op F_condition_ex F_condition_cfg ex))))
  (let ((s (str.++ kw pad (opStr op) pad val)))
    (ite (bit (select F_nodeConfig_opt g) #x0001) (str.++ "(" pad s pad ")") s))))
(define-fun-rec CRs ((Cell_stack (Array Int Slice)) (Mem_Val (Array Int (Array Int Val))) (F_nodeConfig_opt (Array Int (_ BitVec 16))) (F_nodeConfig_typ (Array Int (_ BitVec 8))) (F_nodeConfig_sym (Array Int String)) (F_nodeConfig_ljc (Array Int String)) (F_nodeConfig_enc (Array Int Slice)) (Mem_Slice (Array Int (Array Int Slice))) (Mem_Str (Array Int (Array Int String))) (F_condition_kw (Array Int String)) (F_condition_op (Array Int Val)) (F_condition_ex (Array Int Val)) (F_condition_cfg (Array Int Int)) (c Int)) String
  (crT Cell_stack Mem_Val F_nodeConfig_opt F_nodeConfig_typ F_nodeConfig_sym F_nodeConfig_ljc F_nodeConfig_enc Mem_Slice Mem_Str F_condition_kw F_condition_op F_condition_ex F_condition_cfg (select F_condition_kw c) (select F_condition_op c) (select F_condition_ex c) (select F_condition_cfg c)))
(define-fun-rec SRs ((Cell_stack (Array Int Slice)) (Mem_Val (Array Int (Array Int Val))) (F_nodeConfig_opt (Array Int (_ BitVec 16))) (F_nodeConfig_typ (Array Int (_ BitVec 8))) (F_nodeConfig_sym (Array Int String)) (F_nodeConfig_ljc (Array Int String)) (F_nodeConfig_enc (Array Int Slice)) (Mem_Slice (Array Int (Array Int Slice))) (Mem_Str (Array Int (Array Int String))) (F_condition_kw (Array Int String)) (F_condition_op (Array Int Val)) (F_condition_ex (Array Int Val)) (F_condition_cfg (Array Int Int)) (h Slice)) String
  ; a stack value: nothing for BASIC (and kind 0), else the joined elements in the body, parenthesised on request, condensed
  (let ((g (scfg Mem_Val h)))
  (let ((opt (select F_nodeConfig_opt g)) (oc (select F_nodeConfig_typ g)) (sym (select F_nodeConfig_sym g)) (ljc (select F_nodeConfig_ljc g)))
  (let ((ot (padS (and (not (bit opt #x0004)) (= sym "")) (opWord opt oc sym))))
    (ite (or (= oc #x00) (= oc #x06)) ""
      (condense (parenS opt oc (bodyS opt oc ot (JR Cell_stack Mem_Val F_nodeConfig_opt F_nodeConfig_typ F_nodeConfig_sym F_nodeConfig_ljc F_nodeConfig_enc Mem_Slice Mem_Str F_condition_kw F_condition_op F_condition_ex F_condition_cfg h (- (s-len h) 1) (sepS opt oc ot sym ljc))))))))))
(define-fun-rec SR ((Cell_stack (Array Int Slice)) (Mem_Val (Array Int (Array Int Val))) (F_nodeConfig_opt (Array Int (_ BitVec 16))) (F_nodeConfig_typ (Array Int (_ BitVec 8))) (F_nodeConfig_sym (Array Int String)) (F_nodeConfig_ljc (Array Int String)) (F_nodeConfig_enc (Array Int Slice)) (Mem_Slice (Array Int (Array Int Slice))) (Mem_Str (Array Int (Array Int String))) (F_condition_kw (Array Int String)) (F_condition_op (Array Int Val)) (F_condition_ex (Array Int Val)) (F_condition_cfg (Array Int Int)) (r Int)) String (ite (= r 0) "" (SRs Cell_stack Mem_Val F_nodeConfig_opt F_nodeConfig_typ F_nodeConfig_sym F_nodeConfig_ljc F_nodeConfig_enc Mem_Slice Mem_Str F_condition_kw F_condition_op F_condition_ex F_condition_cfg (select Cell_stack r))))
(define-fun-rec CRv ((Cell_stack (Array Int Slice)) (Mem_Val (Array Int (Array Int Val))) (F_nodeConfig_opt (Array Int (_ BitVec 16))) (F_nodeConfig_typ (Array Int (_ BitVec 8))) (F_nodeConfig_sym (Array Int String)) (F_nodeConfig_ljc (Array Int String)) (F_nodeConfig_enc (Array Int Slice)) (Mem_Slice (Array Int (Array Int Slice))) (Mem_Str (Array Int (Array Int String))) (F_condition_kw (Array Int String)) (F_condition_op (Array Int Val)) (F_condition_ex (Array Int Val)) (F_condition_cfg (Array Int Int)) (c Int)) String
  (ite (and (not (= c 0)) (condValid (select F_condition_kw c) (select F_condition_op c) (select F_condition_ex c))) (CRs Cell_stack Mem_Val F_nodeConfig_opt F_nodeConfig_typ F_nodeConfig_sym F_nodeConfig_ljc F_nodeConfig_enc Mem_Slice Mem_Str F_condition_kw F_condition_op F_condition_ex F_condition_cfg c) ""))
(define-fun-rec strCallH ((Cell_stack (Array Int Slice)) (Mem_Val (Array Int (Array Int Val))) (F_nodeConfig_opt (Array Int (_ BitVec 16))) (F_nodeConfig_typ (Array Int (_ BitVec 8))) (F_nodeConfig_sym (Array Int String)) (F_nodeConfig_ljc (Array Int String)) (F_nodeConfig_enc (Array Int Slice)) (Mem_Slice (Array Int (Array Int Slice))) (Mem_Str (Array Int (Array Int String))) (F_condition_kw (Array Int String)) (F_condition_op (Array Int Val)) (F_condition_ex (Array Int Val)) (F_condition_cfg (Array Int Int)) (f Int)) String
  (ite (= (mKind f) 1) (SR Cell_stack Mem_Val F_nodeConfig_opt F_nodeConfig_typ F_nodeConfig_sym F_nodeConfig_ljc F_nodeConfig_enc Mem_Slice Mem_Str F_condition_kw F_condition_op F_condition_ex F_condition_cfg (mRecv f)) (ite (= (mKind f) 2) (CRv Cell_stack Mem_Val F_nodeConfig_opt F_nodeConfig_typ F_nodeConfig_sym F_nodeConfig_ljc F_nodeConfig_enc Mem_Slice Mem_Str F_condition_kw F_condition_op F_condition_ex F_condition_cfg (mRecv f)) (strCallU f)))) ;;@trusted reflection: calling the method value of a native Stack/Condition is calling its String method
(define-fun-rec ER ((Cell_stack (Array Int Slice)) (Mem_Val (Array Int (Array Int Val))) (F_nodeConfig_opt (Array Int (_ BitVec 16))) (F_nodeConfig_typ (Array Int (_ BitVec 8))) (F_nodeConfig_sym (Array Int String)) (F_nodeConfig_ljc (Array Int String)) (F_nodeConfig_enc (Array Int Slice)) (Mem_Slice (Array Int (Array Int Slice))) (Mem_Str (Array Int (Array Int String))) (F_condition_kw (Array Int String)) (F_condition_op (Array Int Val)) (F_condition_ex (Array Int Val)) (F_condition_cfg (Array Int Int)) (g Int) (x Val)) String
  ; one element of a stack whose configuration is g
  (let ((pd (not (bit (select F_nodeConfig_opt g) #x0004)))
        (enc (ite (= (select F_nodeConfig_typ g) #x06) (mk-slice 0 0 0 0) (select F_nodeConfig_enc g))))
  (ite (isStackLike x)
       (ite (= (stackOf x) 0) ""
         (let ((xg (scfg Mem_Val (select Cell_stack (stackOf x)))))
           (ite (and (= (select F_nodeConfig_typ xg) #x03) (= (select F_nodeConfig_sym xg) ""))
                (str.++ (opWord (select F_nodeConfig_opt xg) #x03 "") " " (SR Cell_stack Mem_Val F_nodeConfig_opt F_nodeConfig_typ F_nodeConfig_sym F_nodeConfig_ljc F_nodeConfig_enc Mem_Slice Mem_Str F_condition_kw F_condition_op F_condition_ex F_condition_cfg (stackOf x)))
                (SR Cell_stack Mem_Val F_nodeConfig_opt F_nodeConfig_typ F_nodeConfig_sym F_nodeConfig_ljc F_nodeConfig_enc Mem_Slice Mem_Str F_condition_kw F_condition_op F_condition_ex F_condition_cfg (stackOf x)))))
  (ite (isCondLike x) (CRv Cell_stack Mem_Val F_nodeConfig_opt F_nodeConfig_typ F_nodeConfig_sym F_nodeConfig_ljc F_nodeConfig_enc Mem_Slice Mem_Str F_condition_kw F_condition_op F_condition_ex F_condition_cfg (condOf x))
  (ite (not (= (stringerFn x) 0)) (padS pd (ite (= (select F_nodeConfig_typ g) #x06) "" (encapS Mem_Slice Mem_Str (select F_nodeConfig_enc g) (strCallH Cell_stack Mem_Val F_nodeConfig_opt F_nodeConfig_typ F_nodeConfig_sym F_nodeConfig_ljc F_nodeConfig_enc Mem_Slice Mem_Str F_condition_kw F_condition_op F_condition_ex F_condition_cfg (stringerFn x)))))
  (ite (isPrimV x) (padS pd (ite (= (select F_nodeConfig_typ g) #x06) "" (encapS Mem_Slice Mem_Str (select F_nodeConfig_enc g) (primText x))))
  "UNKNOWN"))))))
(define-fun-rec EX ((Cell_stack (Array Int Slice)) (Mem_Val (Array Int (Array Int Val))) (F_nodeConfig_opt (Array Int (_ BitVec 16))) (F_nodeConfig_typ (Array Int (_ BitVec 8))) (F_nodeConfig_sym (Array Int String)) (F_nodeConfig_ljc (Array Int String)) (F_nodeConfig_enc (Array Int Slice)) (Mem_Slice (Array Int (Array Int Slice))) (Mem_Str (Array Int (Array Int String))) (F_condition_kw (Array Int String)) (F_condition_op (Array Int Val)) (F_condition_ex (Array Int Val)) (F_condition_cfg (Array Int Int)) (x Val)) String
  ; the expression of a Condition
  (ite (not (= (stringerFn x) 0)) (strCallH Cell_stack Mem_Val F_nodeConfig_opt F_nodeConfig_typ F_nodeConfig_sym F_nodeConfig_ljc F_nodeConfig_enc Mem_Slice Mem_Str F_condition_kw F_condition_op F_condition_ex F_condition_cfg (stringerFn x))
  (ite (isStackLike x) (SR Cell_stack Mem_Val F_nodeConfig_opt F_nodeConfig_typ F_nodeConfig_sym F_nodeConfig_ljc F_nodeConfig_enc Mem_Slice Mem_Str F_condition_kw F_condition_op F_condition_ex F_condition_cfg (stackOf x))
  (ite (isCondLike x) (CRv Cell_stack Mem_Val F_nodeConfig_opt F_nodeConfig_typ F_nodeConfig_sym F_nodeConfig_ljc F_nodeConfig_enc Mem_Slice Mem_Str F_condition_kw F_condition_op F_condition_ex F_condition_cfg (condOf x))
  (primText x)))))
; ---- domain of the composed rendering theorem (heap-wide, see DESIGN.md 7.x)
; elemMark guards the element clauses as their trigger: the engine asserts it for every interface value it
; reads from the heap, so the clauses apply to every value the code can see (read it as "true")
(declare-fun elemMark (Val) Bool)
(define-fun okelem ((Cell_stack (Array Int Slice)) (Mem_Val (Array Int (Array Int Val))) (F_nodeConfig_typ (Array Int (_ BitVec 8)))
                    (F_nodeConfig_cap (Array Int Int)) (F_nodeConfig_log (Array Int Int)) (F_condition_cfg (Array Int Int)) (alloc Int) (v Val)) Bool
  (and (or (= v nilv) ((_ is v_str) v) ((_ is v_bool) v) ((_ is v_int) v) ((_ is v_cfgp) v) (isStackLike v) (isCondLike v) (not (= (stringerFn v) 0)))
       (okval v alloc)
       (=> (and (isStackLike v) (not (= (stackOf v) 0))) (wf Cell_stack Mem_Val F_nodeConfig_typ F_nodeConfig_cap F_nodeConfig_log alloc (stackOf v)))
       (=> (and (isCondLike v) (not (= (condOf v) 0))) (cwf F_condition_cfg F_nodeConfig_typ F_nodeConfig_log alloc (condOf v)))))
(define-fun rdom ((Cell_stack (Array Int Slice)) (Mem_Val (Array Int (Array Int Val))) (F_nodeConfig_typ (Array Int (_ BitVec 8)))
                  (F_nodeConfig_cap (Array Int Int)) (F_nodeConfig_log (Array Int Int)) (F_condition_cfg (Array Int Int))
                  (F_condition_ex (Array Int Val)) (F_nodeConfig_rpf (Array Int Int)) (F_nodeConfig_vpf (Array Int Int))
                  (F_nodeConfig_opt (Array Int (_ BitVec 16))) (F_nodeConfig_ljc (Array Int String)) (alloc Int)) Bool
  (and (forall ((g Int)) (! (and (= (select F_nodeConfig_rpf g) 0) (= (select F_nodeConfig_vpf g) 0)
                                 (not (and (= (select F_nodeConfig_typ g) #x04) (bit (select F_nodeConfig_opt g) #x0004)
                                           (not (bit (select F_nodeConfig_opt g) #x0008)) (= (select F_nodeConfig_ljc g) ""))))
                            :pattern ((select F_nodeConfig_rpf g)) :pattern ((select F_nodeConfig_vpf g)) :pattern ((select F_nodeConfig_ljc g))))
       (forall ((a Int) (i Int)) (! (=> (elemMark (select (select Mem_Val a) i))
                                        (okelem Cell_stack Mem_Val F_nodeConfig_typ F_nodeConfig_cap F_nodeConfig_log F_condition_cfg alloc (select (select Mem_Val a) i)))
                            :pattern ((elemMark (select (select Mem_Val a) i)))))
       (forall ((c Int)) (! (=> (elemMark (select F_condition_ex c))
                                (okelem Cell_stack Mem_Val F_nodeConfig_typ F_nodeConfig_cap F_nodeConfig_log F_condition_cfg alloc (select F_condition_ex c)))
                            :pattern ((elemMark (select F_condition_ex c)))))))
(define-fun okelemW ((Cell_stack (Array Int Slice)) (Mem_Val (Array Int (Array Int Val))) (F_nodeConfig_typ (Array Int (_ BitVec 8)))
                    (F_nodeConfig_cap (Array Int Int)) (F_nodeConfig_log (Array Int Int)) (F_condition_cfg (Array Int Int)) (alloc Int) (v Val)) Bool
  (and (okval v alloc)
       (=> (and (isStackLike v) (not (= (stackOf v) 0))) (wf Cell_stack Mem_Val F_nodeConfig_typ F_nodeConfig_cap F_nodeConfig_log alloc (stackOf v)))
       (=> (and (isCondLike v) (not (= (condOf v) 0))) (cwf F_condition_cfg F_nodeConfig_typ F_nodeConfig_log alloc (condOf v)))))
; ---- domain of the Unmarshal contracts (C04): no unmarshal policies; the elements of every stack and the
; expression of every condition are well formed (quantified over stack references, so that freshly
; allocated output arrays are not constrained)
(define-fun udom ((Cell_stack (Array Int Slice)) (Mem_Val (Array Int (Array Int Val))) (F_nodeConfig_typ (Array Int (_ BitVec 8)))
                  (F_nodeConfig_cap (Array Int Int)) (F_nodeConfig_log (Array Int Int)) (F_condition_cfg (Array Int Int))
                  (F_condition_ex (Array Int Val)) (F_nodeConfig_umf (Array Int Int)) (alloc Int)) Bool
  (and (forall ((g Int)) (! (= (select F_nodeConfig_umf g) 0) :pattern ((select F_nodeConfig_umf g))))
       (forall ((s Int) (k Int)) (! (=> (and (<= 1 k) (< k (s-len (select Cell_stack s))))
                                        (okelemW Cell_stack Mem_Val F_nodeConfig_typ F_nodeConfig_cap F_nodeConfig_log F_condition_cfg alloc
                                                 (select (select Mem_Val (s-arr (select Cell_stack s))) k)))
                            :pattern ((select (select Mem_Val (s-arr (select Cell_stack s))) k))))
       (forall ((c Int)) (! (okelemW Cell_stack Mem_Val F_nodeConfig_typ F_nodeConfig_cap F_nodeConfig_log F_condition_cfg alloc (select F_condition_ex c))
                            :pattern ((select F_condition_ex c))))))
