; ---------------------------------------------------------------------
; Condition record (C06, C13 condition side)
; ---------------------------------------------------------------------
; operator text / context: the built-in comparison operator by definition (op.go),
; user-defined operators by their own (uninterpreted, assumed pure) methods
(declare-fun ext_Operator_String_0 (Val) String)   ;;@trusted A-closure: a user-defined Operator's String() is a function of the value
(declare-fun ext_Operator_Context_0 (Val) String)  ;;@trusted A-closure: a user-defined Operator's Context() is a function of the value
(define-fun copStr ((c (_ BitVec 8))) String
  (ite (= c #x01) "=" (ite (= c #x02) "!=" (ite (= c #x03) "<" (ite (= c #x04) ">" (ite (= c #x05) "<=" (ite (= c #x06) ">=" "<invalid_operator>")))))))
(define-fun opStr ((v Val)) String (ite ((_ is v_cop) v) (copStr (cop_of v)) (ext_Operator_String_0 v)))
(define-fun opCtx ((v Val)) String (ite ((_ is v_cop) v) "comparison" (ext_Operator_Context_0 v)))
(define-fun acceptOp ((v Val)) Bool (and (not (= v nilv)) (> (str.len (opCtx v)) 0) (> (str.len (opStr v)) 0)))
; expression acceptance (from the property statement)
(define-fun acceptEx ((nn Bool) (err Val) (e Val)) Bool
  (and (not (= e nilv)) (not (and ((_ is v_str) e) (= (str_of e) ""))) (not (and nn (isStackLike e))) (= err nilv)))
(define-fun ccfg ((F_condition_cfg (Array Int Int)) (c Int)) Int (select F_condition_cfg c))
; validity verdict without a validity policy (from the property statement)
(define-fun condValid ((kw String) (op Val) (ex Val)) Bool
  (and (> (str.len kw) 0) (not (= op nilv))
       (=> ((_ is v_cop) op) (and (bvule #x01 (cop_of op)) (bvule (cop_of op) #x06)))
       (not (= ex nilv))))
; dynamic type implements Operator (engine-declared impl_Operator over foreign type ids)
(declare-fun impl_Operator (Int) Bool) ;;@trusted abstract: which foreign dynamic types implement Operator
(define-fun isOperator ((v Val)) Bool (or ((_ is v_cop) v) (and ((_ is v_other) v) (impl_Operator (o_ty v)))))
