; facts used only when a concrete, observed execution is evaluated against a clause (replay confirmation);
; they are not part of the proof prelude
; ---- case folding of the operator words (library semantics on the ASCII words the package uses)
(assert (and (= (toLower "AND") "and") (= (toLower "OR") "or") (= (toLower "NOT") "not") (= (toLower "LIST") "list")
             (= (toLower "BASIC") "basic") (= (toLower "CONDITION") "condition")
             (= (toUpper "and") "AND") (= (toUpper "or") "OR") (= (toUpper "not") "NOT") (= (toUpper "list") "LIST")
             (= (toUpper "basic") "BASIC") (= (toUpper "condition") "CONDITION"))) ;;@trusted strings.ToLower / strings.ToUpper on the ASCII operator words
(assert (forall ((c Int)) (! (=> (and (<= 0 c) (< c 128)) (= (isUpperRune c) (and (<= 65 c) (<= c 90)))) :pattern ((isUpperRune c))))) ;;@trusted unicode.IsUpper on ASCII
(assert (and (= (toUpper "AND") "AND") (= (toUpper "OR") "OR") (= (toUpper "NOT") "NOT") (= (toUpper "LIST") "LIST")
             (= (toUpper "BASIC") "BASIC") (= (toUpper "CONDITION") "CONDITION"))) ;;@trusted strings.ToUpper is the identity on upper-case ASCII words
