; ---------------------------------------------------------------------
; C02 / C06: rendering
; ---------------------------------------------------------------------
; whitespace condensation, from the property statement: every run of blanks (SP, HT) becomes one
; space, every other byte is reproduced as that byte
(define-fun isBlank ((s String)) Bool (or (= s " ") (= s (str.from_code 9))))
(define-fun-rec cw ((b String) (i Int) (last Bool)) String
  (ite (or (< i 0) (>= i (str.len b))) ""
  (ite (isBlank (str.at b i))
       (ite last (cw b (+ i 1) true) (str.++ " " (cw b (+ i 1) true)))
       (str.++ (str.at b i) (cw b (+ i 1) false)))))
(define-fun condense ((b String)) String (cw (trimSpace b) 0 false))
(assert (forall ((s String)) (! (<= (str.len (trimSpace s)) (str.len s)) :pattern ((trimSpace s)))))   ;;@trusted strings.TrimSpace never lengthens its argument
; padding, folding, parentheses (misc.go / stack.go helpers)
(define-fun padS ((do Bool) (v String)) String (ite (= v "") "" (ite do (str.++ " " v " ") v)))
(define-fun foldS ((do Bool) (v String)) String
  (ite (or (not do) (= v "")) v (ite (isUpperRune (str.to_code (str.at v 0))) (toLower v) (toUpper v))))
(assert (forall ((s String)) (! (=> (and (> (str.len s) 0) (< 32 (str.to_code (str.at s 0))) (< (str.to_code (str.at s 0)) 127)
                                         (< 32 (str.to_code (str.at s (- (str.len s) 1)))) (< (str.to_code (str.at s (- (str.len s) 1))) 127))
                                    (= (trimSpace s) s)) :pattern ((trimSpace s)))))   ;;@trusted strings.TrimSpace is the identity on strings that begin and end with a printable ASCII byte
