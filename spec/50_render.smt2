; ---------------------------------------------------------------------
; C02 / C06: rendering
; ---------------------------------------------------------------------
; whitespace condensation, from the property statement: every run of blanks (SP, HT) becomes one
; space, every other byte is reproduced as that byte
(define-fun isBlank ((s String)) Bool (or (= s " ") (= s (str.from_code 9))))
(define-fun-rec cw ((b String) (i Int) (last Bool)) String
  (ite (or (< i 0) (>= i (str.len b))) ""
  (ite (isBlank (str.at b i))
       (ite last (cw b (+ i 1) true) (str.++ " " (cw b (+ i 1) true)))
       (str.++ (str.at b i) (cw b (+ i 1) false)))))
(define-fun condense ((b String)) String (cw (trimSpace b) 0 false))
(assert (forall ((s String)) (! (<= (str.len (trimSpace s)) (str.len s)) :pattern ((trimSpace s)))))   ;;@trusted strings.TrimSpace never lengthens its argument
; padding, folding, parentheses (misc.go / stack.go helpers)
(define-fun padS ((do Bool) (v String)) String (ite (= v "") "" (ite do (str.++ " " v " ") v)))
(define-fun foldS ((do Bool) (v String)) String
  (ite (or (not do) (= v "")) v (ite (isUpperRune (str.to_code (str.at v 0))) (toLower v) (toUpper v))))
(assert (forall ((s String)) (! (=> (and (> (str.len s) 0) (< 32 (str.to_code (str.at s 0))) (< (str.to_code (str.at s 0)) 127)
                                         (< 32 (str.to_code (str.at s (- (str.len s) 1)))) (< (str.to_code (str.at s (- (str.len s) 1))) 127))
                                    (= (trimSpace s) s)) :pattern ((trimSpace s)))))   ;;@trusted strings.TrimSpace is the identity on strings that begin and end with a printable ASCII byte
; ---- encapsulation: enc is a [][]string; entry j is a pair (L,R), a single string used on both sides, or ignored
(define-fun encEntry ((Mem_Slice (Array Int (Array Int Slice))) (enc Slice) (j Int)) Slice
  (select (select Mem_Slice (s-arr enc)) (+ (s-off enc) j)))
(define-fun encLft ((Mem_Str (Array Int (Array Int String))) (e Slice)) String
  (ite (or (= (s-len e) 1) (= (s-len e) 2)) (select (select Mem_Str (s-arr e)) (s-off e)) ""))
(define-fun encRgt ((Mem_Str (Array Int (Array Int String))) (e Slice)) String
  (ite (= (s-len e) 1) (select (select Mem_Str (s-arr e)) (s-off e))
  (ite (= (s-len e) 2) (select (select Mem_Str (s-arr e)) (+ (s-off e) 1)) "")))
; L_i L_i+1 ... L_n-1   and   R_n-1 ... R_i+1 R_i : entry 0 is outermost
(define-fun-rec encLF ((Mem_Slice (Array Int (Array Int Slice))) (Mem_Str (Array Int (Array Int String))) (enc Slice) (i Int)) String
  (ite (or (< i 0) (>= i (s-len enc))) ""
       (str.++ (encLft Mem_Str (encEntry Mem_Slice enc i)) (encLF Mem_Slice Mem_Str enc (+ i 1)))))
(define-fun-rec encRF ((Mem_Slice (Array Int (Array Int Slice))) (Mem_Str (Array Int (Array Int String))) (enc Slice) (i Int)) String
  (ite (or (< i 0) (>= i (s-len enc))) ""
       (str.++ (encRF Mem_Slice Mem_Str enc (+ i 1)) (encRgt Mem_Str (encEntry Mem_Slice enc i)))))
(define-fun encapS ((Mem_Slice (Array Int (Array Int Slice))) (Mem_Str (Array Int (Array Int String))) (enc Slice) (v String)) String
  (str.++ (encLF Mem_Slice Mem_Str enc 0) v (encRF Mem_Slice Mem_Str enc 0)))
; ---- operator word, parentheses
(define-fun kindWord ((t (_ BitVec 8))) String
  (ite (= t #x01) "AND" (ite (= t #x02) "OR" (ite (= t #x03) "NOT" (ite (= t #x04) "LIST" (ite (= t #x05) "CONDITION" (ite (= t #x06) "BASIC" "<invalid_stack>")))))))
(define-fun opWord ((opt (_ BitVec 16)) (t (_ BitVec 8)) (sym String)) String
  (ite (> (str.len sym) 0) sym (foldS (bit opt #x0002) (kindWord t))))
(define-fun parenS ((opt (_ BitVec 16)) (t (_ BitVec 8)) (v String)) String
  (ite (and (bit opt #x0001) (not (= t #x06)))
       (ite (bit opt #x0004) (str.++ "(" v ")") (str.++ "( " v " )"))
       v))
; ---- symbol text assembled from string and rune arguments (stack.go setSymbol)
(define-fun-rec symCat ((Mem_Val (Array Int (Array Int Val))) (c Slice) (n Int)) String
  (ite (<= n 0) ""
    (let ((e (sslot Mem_Val c (- n 1))))
      (str.++ (symCat Mem_Val c (- n 1))
              (ite ((_ is v_str) e) (str_of e) (ite ((_ is v_int32) e) (runeStr (int32_of e)) ""))))))
; kind selected by Marshal for a label (stack.go stackByWord; anything else is BASIC)
(define-fun kindOfLabel ((u String)) (_ BitVec 8)
  (ite (= u "LIST") #x04 (ite (= u "AND") #x01 (ite (= u "NOT") #x03 (ite (= u "OR") #x02 #x06)))))
; a nested []any entry that Marshal turns into a stack: non-empty, first entry a known kind label
(define-fun labelledStack ((Mem_Val (Array Int (Array Int Val))) (v Val)) Bool
  (and ((_ is v_anys) v) (>= (s-len (anys_of v)) 1)
       (let ((f (select (select Mem_Val (s-arr (anys_of v))) (s-off (anys_of v)))))
         (and ((_ is v_str) f)
              (let ((u (toUpper (str_of f)))) (or (= u "LIST") (= u "AND") (= u "OR") (= u "NOT") (= u "BASIC")))))))
; ---- C18: encapsulation list (cfg.go setEncap): a string is refused when it occurs in an entry already stored
(define-fun inEntry ((Mem_Str (Array Int (Array Int String))) (e Slice) (s String) (n Int)) Bool
  (exists ((k Int)) (! (and (<= 0 k) (< k n) (= (select (select Mem_Str (s-arr e)) (+ (s-off e) k)) s))
                       :pattern ((select (select Mem_Str (s-arr e)) (+ (s-off e) k))))))
(define-fun inUse ((Mem_Slice (Array Int (Array Int Slice))) (Mem_Str (Array Int (Array Int String))) (enc Slice) (s String) (n Int)) Bool
  (exists ((u Int)) (! (and (<= 0 u) (< u n)
                            (inEntry Mem_Str (select (select Mem_Slice (s-arr enc)) (+ (s-off enc) u)) s
                                     (s-len (select (select Mem_Slice (s-arr enc)) (+ (s-off enc) u)))))
                       :pattern ((select (select Mem_Slice (s-arr enc)) (+ (s-off enc) u))))))
