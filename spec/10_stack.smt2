; ---------------------------------------------------------------------
; Stack representation: header cell, slots, configuration record
; (definitions only)
; ---------------------------------------------------------------------
; option bits (cfg.go)
(define-fun bit ((o (_ BitVec 16)) (m (_ BitVec 16))) Bool (not (= (bvand o m) #x0000)))
(define-fun onebit16 ((x (_ BitVec 16))) Bool
  (or (= x #x0001) (= x #x0002) (= x #x0004) (= x #x0008) (= x #x0010) (= x #x0020) (= x #x0040) (= x #x0080)
      (= x #x0100) (= x #x0200) (= x #x0400) (= x #x0800) (= x #x1000) (= x #x2000) (= x #x4000) (= x #x8000)))
(define-fun kindOK ((t (_ BitVec 8))) Bool (or (= t #x01) (= t #x02) (= t #x03) (= t #x04) (= t #x06)))

; header of a *stack and its slots
(define-fun hdr ((Cell_stack (Array Int Slice)) (r Int)) Slice (select Cell_stack r))
(define-fun sslot ((Mem_Val (Array Int (Array Int Val))) (s Slice) (k Int)) Val
  (select (select Mem_Val (s-arr s)) (+ (s-off s) k)))
(define-fun slot ((Cell_stack (Array Int Slice)) (Mem_Val (Array Int (Array Int Val))) (r Int) (k Int)) Val
  (sslot Mem_Val (select Cell_stack r) k))
(define-fun scfg ((Mem_Val (Array Int (Array Int Val))) (s Slice)) Int (cfgp_of (sslot Mem_Val s 0)))
(define-fun cfgOf ((Cell_stack (Array Int Slice)) (Mem_Val (Array Int (Array Int Val))) (r Int)) Int
  (cfgp_of (sslot Mem_Val (select Cell_stack r) 0)))
(define-fun ulen ((Cell_stack (Array Int Slice)) (r Int)) Int (- (s-len (select Cell_stack r)) 1))
(define-fun elem ((Cell_stack (Array Int Slice)) (Mem_Val (Array Int (Array Int Val))) (r Int) (k Int)) Val
  (sslot Mem_Val (select Cell_stack r) (+ k 1)))

; wfs: a stack value (slice header) is well formed
(define-fun wfs ((Mem_Val (Array Int (Array Int Val))) (F_nodeConfig_typ (Array Int (_ BitVec 8)))
                 (F_nodeConfig_cap (Array Int Int)) (F_nodeConfig_log (Array Int Int)) (alloc Int) (s Slice)) Bool
  (and (okslice s alloc) (>= (s-len s) 1) (not (= (s-arr s) 0)) (= (s-off s) 0)
       ((_ is v_cfgp) (sslot Mem_Val s 0))
       (let ((c (cfgp_of (sslot Mem_Val s 0))))
         (and (< 0 c) (< c alloc)
              (kindOK (select F_nodeConfig_typ c))
              (not (= (select F_nodeConfig_log c) 0)) (< (select F_nodeConfig_log c) alloc)
              (or (= (select F_nodeConfig_cap c) 0)
                  (and (>= (select F_nodeConfig_cap c) 2) (<= (s-len s) (select F_nodeConfig_cap c))
                       (isInt64 (select F_nodeConfig_cap c))))))))
; wf: a *stack is well formed
(define-fun wf ((Cell_stack (Array Int Slice)) (Mem_Val (Array Int (Array Int Val))) (F_nodeConfig_typ (Array Int (_ BitVec 8)))
                (F_nodeConfig_cap (Array Int Int)) (F_nodeConfig_log (Array Int Int)) (alloc Int) (r Int)) Bool
  (and (< 0 r) (< r alloc) (wfs Mem_Val F_nodeConfig_typ F_nodeConfig_cap F_nodeConfig_log alloc (select Cell_stack r))))

; slotOf: which slot (1-based, 0 = none) an index addresses, from the property statement (C01/C08)
(define-fun slotOf ((i Int) (L Int) (o (_ BitVec 16))) Int
  (ite (<= L 0) 0
  (ite (< i 0) (ite (and (bit o #x0010) (<= (- i) L)) (+ L i 1) 0)
  (ite (> i (- L 1)) (ite (bit o #x0020) L 0)
  (+ i 1)))))
; absolute cell of a slice's backing row (quantify over q for solver-friendly triggers)
(define-fun cell ((Mem_Val (Array Int (Array Int Val))) (s Slice) (q Int)) Val (select (select Mem_Val (s-arr s)) q))

; ---------------------------------------------------------------------
; (alias classification symbols are declared in 00_base.smt2)
(define-fun isStackLike ((v Val)) Bool (or ((_ is v_Stack) v) (aliasStack v)))
(define-fun stackOf ((v Val)) Int (ite ((_ is v_Stack) v) (stack_of v) (ite (aliasStack v) (aliasStackOf v) 0)))
(define-fun isCondLike ((v Val)) Bool (or ((_ is v_Cond) v) (aliasCond v)))
(define-fun condOf ((v Val)) Int (ite ((_ is v_Cond) v) (cond_of v) (ite (aliasCond v) (aliasCondOf v) 0)))

; ---------------------------------------------------------------------
; push acceptance (C13) and the length after offering the first j values of a batch (C01/C03/C13)
(define-fun accept ((nn Bool) (v Val)) Bool (not (and nn (isStackLike v))))
(define-fun-rec plen ((M (Array Int (Array Int Val))) (x Slice) (nn Bool) (cp Int) (len0 Int) (j Int)) Int
  (ite (<= j 0) len0
       (ite (and (accept nn (sslot M x (- j 1))) (or (= cp 0) (< (plen M x nn cp len0 (- j 1)) cp)))
            (+ (plen M x nn cp len0 (- j 1)) 1)
            (plen M x nn cp len0 (- j 1)))))
(define-fun stored ((M (Array Int (Array Int Val))) (x Slice) (nn Bool) (cp Int) (len0 Int) (j Int)) Bool
  (and (accept nn (sslot M x j)) (or (= cp 0) (< (plen M x nn cp len0 j) cp))))

; frame helpers (quantified definitions)
(define-fun hdrsSameExcept ((A (Array Int Slice)) (B (Array Int Slice)) (r Int) (al Int)) Bool
  (forall ((q Int)) (! (=> (and (<= 0 q) (< q al) (not (= q r))) (= (select A q) (select B q))) :pattern ((select A q)))))
(define-fun memSameExcept ((A (Array Int (Array Int Val))) (B (Array Int (Array Int Val))) (a Int) (al Int)) Bool
  (forall ((q Int)) (! (=> (and (<= 0 q) (< q al) (not (= q a))) (= (select A q) (select B q))) :pattern ((select A q)))))

; Condition record well-formedness
(define-fun cwf ((F_condition_cfg (Array Int Int)) (F_nodeConfig_typ (Array Int (_ BitVec 8))) (F_nodeConfig_log (Array Int Int)) (alloc Int) (c Int)) Bool
  (and (< 0 c) (< c alloc)
       (let ((g (select F_condition_cfg c)))
         (and (< 0 g) (< g alloc) (= (select F_nodeConfig_typ g) #x05)
              (not (= (select F_nodeConfig_log g) 0)) (< (select F_nodeConfig_log g) alloc)))))

; ---------------------------------------------------------------------
; C07: Traverse(path) = stepwise Index descent (recursive spec over the stack value h, unfolded on ground terms)
(define-fun stail ((p Slice)) Slice (mk-slice (s-arr p) (+ (s-off p) 1) (- (s-len p) 1) (- (s-cap p) 1)))
(define-fun p0 ((Mem_Int (Array Int (Array Int Int))) (p Slice)) Int (select (select Mem_Int (s-arr p)) (s-off p)))
; the element addressed by index i in stack value h, nilv when the index addresses nothing
(define-fun idxVal ((Mem_Val (Array Int (Array Int Val))) (F_nodeConfig_opt (Array Int (_ BitVec 16))) (h Slice) (i Int)) Val
  (let ((t (slotOf i (- (s-len h) 1) (select F_nodeConfig_opt (cfgp_of (sslot Mem_Val h 0))))))
    (ite (= t 0) nilv (sslot Mem_Val h t))))
; where the walk descends from a non-final element: 0 when it cannot
(define-fun descend ((F_condition_ex (Array Int Val)) (v Val)) Int
  (ite (isStackLike v) (stackOf v)
  (ite (and (isCondLike v) (> (condOf v) 0) (isStackLike (select F_condition_ex (condOf v)))) (stackOf (select F_condition_ex (condOf v))) 0)))
; no validity policy on the walked path (policies are C14)
(define-fun-rec WalkDef ((Cell_stack (Array Int Slice)) (Mem_Val (Array Int (Array Int Val))) (Mem_Int (Array Int (Array Int Int))) (F_nodeConfig_opt (Array Int (_ BitVec 16))) (F_nodeConfig_vpf (Array Int Int)) (F_condition_ex (Array Int Val)) (h Slice) (p Slice)) Bool
  (and (= (select F_nodeConfig_vpf (cfgp_of (sslot Mem_Val h 0))) 0)
       (or (<= (s-len p) 1)
           (= (idxVal Mem_Val F_nodeConfig_opt h (p0 Mem_Int p)) nilv)
           (= (descend F_condition_ex (idxVal Mem_Val F_nodeConfig_opt h (p0 Mem_Int p))) 0)
           (WalkDef Cell_stack Mem_Val Mem_Int F_nodeConfig_opt F_nodeConfig_vpf F_condition_ex (select Cell_stack (descend F_condition_ex (idxVal Mem_Val F_nodeConfig_opt h (p0 Mem_Int p)))) (stail p)))))
(define-fun-rec WalkOk ((Cell_stack (Array Int Slice)) (Mem_Val (Array Int (Array Int Val))) (Mem_Int (Array Int (Array Int Int))) (F_nodeConfig_opt (Array Int (_ BitVec 16))) (F_condition_ex (Array Int Val)) (h Slice) (p Slice)) Bool
  (ite (<= (s-len p) 0) false
  (ite (= (idxVal Mem_Val F_nodeConfig_opt h (p0 Mem_Int p)) nilv) false
  (ite (= (s-len p) 1) true
  (ite (= (descend F_condition_ex (idxVal Mem_Val F_nodeConfig_opt h (p0 Mem_Int p))) 0) false
       (WalkOk Cell_stack Mem_Val Mem_Int F_nodeConfig_opt F_condition_ex (select Cell_stack (descend F_condition_ex (idxVal Mem_Val F_nodeConfig_opt h (p0 Mem_Int p)))) (stail p)))))))
; the value reached; a Condition (alias) at the final position is handed back in native form
(define-fun finalVal ((v Val)) Val (ite (and (isCondLike v) (not (isStackLike v))) (v_Cond (condOf v)) v))
(define-fun-rec WalkV ((Cell_stack (Array Int Slice)) (Mem_Val (Array Int (Array Int Val))) (Mem_Int (Array Int (Array Int Int))) (F_nodeConfig_opt (Array Int (_ BitVec 16))) (F_condition_ex (Array Int Val)) (h Slice) (p Slice)) Val
  (ite (<= (s-len p) 0) nilv
  (ite (= (idxVal Mem_Val F_nodeConfig_opt h (p0 Mem_Int p)) nilv) nilv
  (ite (= (s-len p) 1) (finalVal (idxVal Mem_Val F_nodeConfig_opt h (p0 Mem_Int p)))
  (ite (= (descend F_condition_ex (idxVal Mem_Val F_nodeConfig_opt h (p0 Mem_Int p))) 0) nilv
       (WalkV Cell_stack Mem_Val Mem_Int F_nodeConfig_opt F_condition_ex (select Cell_stack (descend F_condition_ex (idxVal Mem_Val F_nodeConfig_opt h (p0 Mem_Int p)))) (stail p)))))))
; epoch-stable: these read only cells reachable from their arguments; when the arguments predate the
; engine's base snapshot they are evaluated on it (so fresh local allocations do not disturb them)
;;@epoch WalkDef WalkOk WalkV
