; ---------------------------------------------------------------------
; Stack representation: header cell, slots, configuration record
; (definitions only)
; ---------------------------------------------------------------------
; option bits (cfg.go)
(define-fun bit ((o (_ BitVec 16)) (m (_ BitVec 16))) Bool (not (= (bvand o m) #x0000)))
(define-fun onebit16 ((x (_ BitVec 16))) Bool
  (or (= x #x0001) (= x #x0002) (= x #x0004) (= x #x0008) (= x #x0010) (= x #x0020) (= x #x0040) (= x #x0080)
      (= x #x0100) (= x #x0200) (= x #x0400) (= x #x0800) (= x #x1000) (= x #x2000) (= x #x4000) (= x #x8000)))
(define-fun kindOK ((t (_ BitVec 8))) Bool (or (= t #x01) (= t #x02) (= t #x03) (= t #x04) (= t #x06)))

; header of a *stack and its slots
(define-fun hdr ((Cell_stack (Array Int Slice)) (r Int)) Slice (select Cell_stack r))
(define-fun sslot ((Mem_Val (Array Int (Array Int Val))) (s Slice) (k Int)) Val
  (select (select Mem_Val (s-arr s)) (+ (s-off s) k)))
(define-fun slot ((Cell_stack (Array Int Slice)) (Mem_Val (Array Int (Array Int Val))) (r Int) (k Int)) Val
  (sslot Mem_Val (select Cell_stack r) k))
(define-fun scfg ((Mem_Val (Array Int (Array Int Val))) (s Slice)) Int (cfgp_of (sslot Mem_Val s 0)))
(define-fun cfgOf ((Cell_stack (Array Int Slice)) (Mem_Val (Array Int (Array Int Val))) (r Int)) Int
  (cfgp_of (sslot Mem_Val (select Cell_stack r) 0)))
(define-fun ulen ((Cell_stack (Array Int Slice)) (r Int)) Int (- (s-len (select Cell_stack r)) 1))
(define-fun elem ((Cell_stack (Array Int Slice)) (Mem_Val (Array Int (Array Int Val))) (r Int) (k Int)) Val
  (sslot Mem_Val (select Cell_stack r) (+ k 1)))

; wfs: a stack value (slice header) is well formed
(define-fun wfs ((Mem_Val (Array Int (Array Int Val))) (F_nodeConfig_typ (Array Int (_ BitVec 8)))
                 (F_nodeConfig_cap (Array Int Int)) (F_nodeConfig_log (Array Int Int)) (alloc Int) (s Slice)) Bool
  (and (okslice s alloc) (>= (s-len s) 1) (not (= (s-arr s) 0)) (= (s-off s) 0)
       ((_ is v_cfgp) (sslot Mem_Val s 0))
       (let ((c (cfgp_of (sslot Mem_Val s 0))))
         (and (< 0 c) (< c alloc)
              (kindOK (select F_nodeConfig_typ c))
              (not (= (select F_nodeConfig_log c) 0)) (< (select F_nodeConfig_log c) alloc)
              (or (= (select F_nodeConfig_cap c) 0)
                  (and (>= (select F_nodeConfig_cap c) 2) (<= (s-len s) (select F_nodeConfig_cap c))
                       (isInt64 (select F_nodeConfig_cap c))))))))
; wf: a *stack is well formed
(define-fun wf ((Cell_stack (Array Int Slice)) (Mem_Val (Array Int (Array Int Val))) (F_nodeConfig_typ (Array Int (_ BitVec 8)))
                (F_nodeConfig_cap (Array Int Int)) (F_nodeConfig_log (Array Int Int)) (alloc Int) (r Int)) Bool
  (and (< 0 r) (< r alloc) (wfs Mem_Val F_nodeConfig_typ F_nodeConfig_cap F_nodeConfig_log alloc (select Cell_stack r))))

; slotOf: which slot (1-based, 0 = none) an index addresses, from the property statement (C01/C08)
(define-fun slotOf ((i Int) (L Int) (o (_ BitVec 16))) Int
  (ite (<= L 0) 0
  (ite (< i 0) (ite (and (bit o #x0010) (<= (- i) L)) (+ L i 1) 0)
  (ite (> i (- L 1)) (ite (bit o #x0020) L 0)
  (+ i 1)))))
; absolute cell of a slice's backing row (quantify over q for solver-friendly triggers)
(define-fun cell ((Mem_Val (Array Int (Array Int Val))) (s Slice) (q Int)) Val (select (select Mem_Val (s-arr s)) q))

; ---------------------------------------------------------------------
; alias classification (reflect-based converter is an assumed contract, audited under C12)
(declare-fun aliasStack (Val) Bool)       ;;@trusted abstract: dynamic type derives from Stack (or pointer to one) and holds a non-nil embedded pointer
(declare-fun aliasStackOf (Val) Int)      ;;@trusted abstract: the embedded *stack of such a value
(declare-fun aliasCond (Val) Bool)        ;;@trusted abstract: dynamic type derives from Condition and holds a non-nil embedded pointer
(declare-fun aliasCondOf (Val) Int)       ;;@trusted abstract: the embedded *condition of such a value
(assert (forall ((v Val)) (! (=> (aliasStack v) (and (or ((_ is v_other) v) ((_ is v_pStack) v)) (> (aliasStackOf v) 0))) :pattern ((aliasStack v))))) ;;@trusted only foreign types and *Stack convert; result non-nil
(assert (forall ((v Val)) (! (=> (aliasCond v) (and (or ((_ is v_other) v) ((_ is v_pCond) v)) (> (aliasCondOf v) 0) (not (aliasStack v)))) :pattern ((aliasCond v))))) ;;@trusted only foreign types and *Condition convert; a type derives from at most one of the two
(define-fun isStackLike ((v Val)) Bool (or ((_ is v_Stack) v) (aliasStack v)))
(define-fun stackOf ((v Val)) Int (ite ((_ is v_Stack) v) (stack_of v) (ite (aliasStack v) (aliasStackOf v) 0)))
(define-fun isCondLike ((v Val)) Bool (or ((_ is v_Cond) v) (aliasCond v)))
(define-fun condOf ((v Val)) Int (ite ((_ is v_Cond) v) (cond_of v) (ite (aliasCond v) (aliasCondOf v) 0)))

; ---------------------------------------------------------------------
; push acceptance (C13) and the length after offering the first j values of a batch (C01/C03/C13)
(define-fun accept ((nn Bool) (v Val)) Bool (not (and nn (isStackLike v))))
(define-fun-rec plen ((M (Array Int (Array Int Val))) (x Slice) (nn Bool) (cp Int) (len0 Int) (j Int)) Int
  (ite (<= j 0) len0
       (ite (and (accept nn (sslot M x (- j 1))) (or (= cp 0) (< (plen M x nn cp len0 (- j 1)) cp)))
            (+ (plen M x nn cp len0 (- j 1)) 1)
            (plen M x nn cp len0 (- j 1)))))
(define-fun stored ((M (Array Int (Array Int Val))) (x Slice) (nn Bool) (cp Int) (len0 Int) (j Int)) Bool
  (and (accept nn (sslot M x j)) (or (= cp 0) (< (plen M x nn cp len0 j) cp))))

; frame helpers (quantified definitions)
(define-fun hdrsSameExcept ((A (Array Int Slice)) (B (Array Int Slice)) (r Int) (al Int)) Bool
  (forall ((q Int)) (! (=> (and (<= 0 q) (< q al) (not (= q r))) (= (select A q) (select B q))) :pattern ((select A q)))))
(define-fun memSameExcept ((A (Array Int (Array Int Val))) (B (Array Int (Array Int Val))) (a Int) (al Int)) Bool
  (forall ((q Int)) (! (=> (and (<= 0 q) (< q al) (not (= q a))) (= (select A q) (select B q))) :pattern ((select A q)))))

; Condition record well-formedness
(define-fun cwf ((F_condition_cfg (Array Int Int)) (F_nodeConfig_typ (Array Int (_ BitVec 8))) (F_nodeConfig_log (Array Int Int)) (alloc Int) (c Int)) Bool
  (and (< 0 c) (< c alloc)
       (let ((g (select F_condition_cfg c)))
         (and (< 0 g) (< g alloc) (= (select F_nodeConfig_typ g) #x05)
              (not (= (select F_nodeConfig_log g) 0)) (< (select F_nodeConfig_log g) alloc)))))
