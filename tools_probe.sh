#!/bin/bash
# usage: [GOAL="<sexpr to prove>"] [T=secs] tools_probe.sh query.smt2 "<extra assert sexpr>" ...
f=$1; shift
tmp=$(mktemp /tmp/probeXXXX.smt2)
python3 - "$f" "$tmp" "$@" <<'PY'
import sys,os
src,dst=sys.argv[1],sys.argv[2]
extra=sys.argv[3:]
s=open(src).read()
goal=os.environ.get('GOAL')
if goal:
    i=s.rindex('; ---- goal')
    s=s[:i]+"".join("(assert %s)\n"%e for e in extra)+"(assert (not %s))\n(check-sat)\n"%goal
else:
    i=s.rindex('(check-sat)')
    s=s[:i]+"".join("(assert %s)\n"%e for e in extra)+s[i:]
open(dst,'w').write(s)
PY
for s in "z3-new -T:${T:-20}" "z3 -T:${T:-20}" "cvc5 --strings-exp --tlimit=${T:-20}000"; do echo -n "$s: "; timeout $((${T:-20}+5)) $s $tmp 2>&1 | head -1; done
rm -f $tmp
